"""C10 — every Future call runs exactly once and join waits for its result (protocol shape)."""
import re
from .. import q, fin
from .. import containers as C
from ..facts import AnalysisBroken

EXPLANATION = (
    "Protocol-shape rules on Future.hpp / Future.cpp: (a) publication order — the call runs exactly once per path, its result is stored "
    "before set(), set() publishes the state before signalling, the call record is deleted last, the result conversion and the "
    "destructor join first, startProc joins and resets _joinable/_aborting before the job is handed to the pool; (b) no sleep without "
    "reset-and-recheck in the three queue wait loops; (c) a wake-up follows every successful hand-off; (d) shared indices and counters are "
    "modified only through Atomic::*, the slot payload is constructed before the slot is published and read before it is released; (e) one "
    "dispatch per successful pop; (f) the lazy pool creation releases its spin lock on every path and re-reads the pool under the lock; "
    "(g) the worker list and _threadCount are modified only under the pool mutex. Not decided: deadlock freedom / eventual return of every "
    "join and lock-freedom of the ring over all interleavings and pool sizes (liveness), absence of double execution under a racy pop "
    "(needs the ring invariant).")

PRIV = "Future::Private::"


def fn1(prog, pred, what):
    c = [f for f in prog.functions.values() if pred(f)]
    if not c:
        raise AnalysisBroken("anchor function not found: " + what)
    return c


def callees(f, suffix):
    from ..report import strip_targs
    return [i for i in q.calls(f) if strip_targs(f.nodes[i].get("callee", "")).endswith(strip_targs(suffix))]


def ordered(f, chain):
    """chain: list of (name, [nodes]); each group non-empty, every node of group k reaches a node of group k+1 and not vice versa"""
    for (na, A), (nb, B) in zip(chain, chain[1:]):
        if not A:
            return "missing " + na
        if not B:
            return "missing " + nb
        for a in A:
            if not any(q.reaches(f, a, b) or f.node_pos(a) == f.node_pos(b) and a < b for b in B):
                return "%s does not precede %s" % (na, nb)
        for b in B:
            if any(q.reaches(f, b, a) for a in A):
                return "%s can run before %s" % (nb, na)
    return None


def R_enum(prog, prefix):
    """enumerator name -> value for enumerators whose qualified name starts with prefix"""
    vals = {}
    for f in prog.functions.values():
        for n in f.nodes:
            if n["k"] == "DeclRefExpr" and n["ref"].get("dk") == "enumconst" and n["ref"].get("q", "").startswith(prefix):
                vals[n["ref"]["q"].split("::")[-1]] = n["ref"]["v"]
    return vals


def run(prog, chk):
    chk.extra["explanation"] = EXPLANATION
    chk.rule("C10.a", "ORD/CNT: publication order in proc / set / result conversion / destructor / startProc / join", floor=10)
    chk.rule("C10.b", "MPT: every wait on a queue signal is preceded in the same iteration by reset() and a second attempt of the queue "
                      "operation, and is reached only when that second attempt failed", floor=3)
    chk.rule("C10.i", "CNT: after a successful push of a job no path evaluates another push of that job (one hand-over per job)", floor=2)
    chk.rule("C10.c", "MPT: every successful push is followed by _enqueuedSignal.set(), every successful pop by _dequeuedSignal.set() "
                      "(exception: the retire-a-worker ticket pushed under the pool mutex in run())", floor=3)
    chk.rule("C10.d", "WHO/ORD: ring indices, slot tickets, FastSignal state and job counters are written only through Atomic::*; the slot is "
                      "filled before it is published and emptied before it is released; the ticket is checked before the CAS", floor=6)
    chk.rule("C10.e", "CNT: per worker iteration a successful pop leads to exactly one dispatch or to leaving the loop; _processedJobs is counted after the call", floor=2)
    chk.rule("C10.f", "MPT: lazy pool creation releases _threadPoolLock on every path and re-reads the pool pointer after acquiring it", floor=2)
    chk.rule("C10.g", "DOM: the worker list and _threadCount are modified only while a Mutex::Guard on the pool mutex is alive", floor=4)

    # ------------------------------------------------------------------ C10.a
    procs = fn1(prog, lambda f: re.match(r"^Future<.*>::proc<", f.tname or "") is not None, "Future<>::proc instantiations")
    for f in procs:
        where = "%s:%s" % (f.file, f.line)
        call = callees(f, "::call")
        sets = callees(f, "Future<void>::set")
        dels = [i for i, n in enumerate(f.nodes) if n["k"] == "CXXDeleteExpr"]
        chain = [("the call", call)]
        is_void = f.tname.startswith("Future<void>::")
        if not is_void:
            res = [s.node for s in q.stores(f) if f.r(s.lhs).endswith("->result")]
            chain.append(("the result store", res))
        chain += [("set()", sets), ("delete of the call record", dels)]
        err = ordered(f, chain)
        if err is None and (len(call) != 1 or len(sets) != 1 or len(dels) != 1):
            err = "call/set/delete must each occur exactly once (found %d/%d/%d)" % (len(call), len(sets), len(dels))
        if err is None and not is_void:
            # the stored value is the call's return value
            res_store = [s for s in q.stores(f) if f.r(s.lhs).endswith("->result")][0]
            if call[0] not in f.desc(res_store.rhs):
                err = "the stored result is not the value returned by the call"
        if err:
            chk.bad("C10.a", f, "proc-publication-order", where, "Future::proc: %s (join() may return before the result is stored, or the record is used after its deletion)" % err)
        else:
            chk.ok("C10.a", f, "proc: call -> %sset() -> delete, each once" % ("" if is_void else "result -> "), where, "reachability between the events", evals=len(chain))
    f = fn1(prog, lambda f: f.name == "Future<void>::set", "Future<void>::set")[0]
    pub = [i for i in q.calls(f) if f.nodes[i].get("callee", "").startswith("Atomic::") and "_state" in f.r(i)]
    pub += [s.node for s in q.stores(f) if f.r(s.lhs) == "this->_state"]
    sig = callees(f, "Signal::set")
    err = ordered(f, [("the state store", pub), ("_sig.set()", sig)])
    if err:
        chk.bad("C10.a", f, "set-publication-order", "%s:%s" % (f.file, f.line), "Future<void>::set: %s (a joiner woken by the signal reads a stale state)" % err)
    else:
        chk.ok("C10.a", f, "set(): state published before the signal", "%s:%s" % (f.file, f.line), "reachability", evals=2)
    # the published state distinguishes aborted / finished by _aborting
    stv = q.no_casts(f.r(pub[0])) if pub else ""
    # decision table: the value published into _state for _aborting = 0 / 1 (whatever the selection is spelled like)
    ev_ = R_enum(prog, "Future<void>::")
    want = {0: ev_.get("finishedState"), 1: ev_.get("abortedState")}
    got = {}
    for av in (0, 1):
        _seen, _end, fv = fin.walk_vals(f, f.entry, {"this->_aborting": av})
        if pub and f.nodes[pub[0]]["k"] == "CallExpr":
            got[av] = fin.eval_expr(f, q.call_args(f, pub[0])[1], dict(fv, **{"this->_aborting": av}))
        elif pub:
            got[av] = fin.eval_expr(f, f.nodes[pub[0]]["c"][1], dict(fv, **{"this->_aborting": av}))
    if pub and None not in want.values() and got == want:
        chk.ok("C10.a", f, "state = _aborting ? aborted : finished", f.where(pub[0]), "published values %s" % got, evals=2)
    else:
        chk.bad("C10.a", f, "set-state-selection", "%s:%s" % (f.file, f.line), "set() must publish abortedState iff an abort was requested, finishedState otherwise; it publishes `%s`" % stv[:80])
    for f in fn1(prog, lambda f: f.kind == "conv" and re.match(r"^Future<.*>::operator const", f.tname or "") is not None, "Future<A>::operator const A&"):
        j = callees(f, "Future<void>::join")
        rets = [i for i, n in enumerate(f.nodes) if n["k"] == "ReturnStmt"]
        err = ordered(f, [("join()", j), ("the read of result", rets)])
        if not err:
            # MPT: no way to the read of the result around join() - unless that way is taken only when the state says "finished" AND
            # startProc puts the state back for every new run (otherwise the state of the previous run answers for the new one)
            byp = q.must_pass_from_entry(f, j)
            if byp is not None:
                fin_edge = False
                for (pb, pi), (nb, ni) in zip(byp, byp[1:]):
                    blk = f.blocks[pb]
                    if nb != pb and blk.get("cond") is not None and len(blk["succ"]) == 2 and blk["succ"][0] != blk["succ"][1]:
                        for an, tr in q.cond_atoms(f, blk["cond"], blk["succ"][0] == nb):
                            if tr and re.search(r"::isFinished$", f.nodes[f.strip(an)].get("callee", "") or ""):
                                fin_edge = True
                sp = fn1(prog, lambda g: g.name == "Future<void>::startProc", "startProc")[0]
                resets = [s.node for s in q.stores(sp) if sp.r(s.lhs) == "this->_state"] + \
                         [i for i in q.calls(sp) if sp.nodes[i].get("callee", "").startswith("Atomic::") and "_state" in sp.r(i)]
                runs = callees(sp, "ThreadPool::run")
                reset_ok = bool(resets) and bool(runs) and ordered(sp, [("the state reset", resets), ("threadPool->run()", runs)]) is None
                if not (fin_edge and reset_ok):
                    err = "a path (lines %s) reaches the read of result without join()%s" % (
                        f.path_lines(byp), "; it is taken when isFinished() holds, but startProc never resets _state, so a future that is started "
                        "again still answers with the previous run's state" if fin_edge else "")
        if err or not all("this->result" in f.r(r) for r in rets):
            chk.bad("C10.a", f, "result-read-before-join", "%s:%s" % (f.file, f.line), "the result conversion must join() before reading result: %s" % (err or "it returns something else"))
        else:
            chk.ok("C10.a", f, "conversion joins before reading the result", "%s:%s" % (f.file, f.line), "reachability", evals=2)
    for f in fn1(prog, lambda f: f.kind == "dtor" and re.match(r"^Future<.*>::~Future$", f.tname or "") is not None, "~Future"):
        inline_join = False
        if not callees(f, "::join"):
            # join() written out: every path on which `_joinable` is not known false waits for the completion signal
            waits_ = [c for c in q.calls(f) if (f.nodes[c].get("callee") or "").endswith("Signal::wait") and "_sig" in f.r(c)]
            cut_ = set()
            for b_ in f.blocks.values():
                nt_ = fin.null_test(f, b_.get("cond")) if len(b_["succ"]) == 2 and b_.get("tk") != "SwitchStmt" else None
                if nt_ is not None and nt_[0] == "this->_joinable" and b_["succ"][nt_[1]] is not None:
                    cut_.add((b_["id"], b_["succ"][nt_[1]]))
            inline_join = bool(waits_) and bool(cut_) and fin.path_with_cuts(f, f.entry_pos(), f.exit_pos(), avoid=q.pos_of(f, waits_), cut=cut_, after_src=False) is None
        if inline_join or (callees(f, "::join") and q.must_pass_from_entry(f, callees(f, "::join")) is None):
            chk.ok("C10.a", f, "destructor joins", "%s:%s" % (f.file, f.line), "join() (or its body: wait on the completion signal while joinable) on every path", nontrivial=False)
        else:
            chk.bad("C10.a", f, "destructor-does-not-join", "%s:%s" % (f.file, f.line), "~Future must join(): the worker writes into the future after it is destroyed")
    f = fn1(prog, lambda f: f.name == "Future<void>::startProc", "startProc")[0]
    where = "%s:%s" % (f.file, f.line)
    run_ = callees(f, "ThreadPool::run")
    j = callees(f, "Future<void>::join")
    sj = [s.node for s in q.stores(f) if f.r(s.lhs) == "this->_joinable" and fin.eval_expr(f, s.rhs, {}) == 1]
    sa = [s.node for s in q.stores(f) if f.r(s.lhs) == "this->_aborting" and fin.eval_expr(f, s.rhs, {}) == 0]
    for nm, ev in (("join()", j), ("_joinable = true", sj), ("_aborting = false", sa)):
        err = ordered(f, [(nm, ev), ("threadPool->run()", run_)])
        if err:
            chk.bad("C10.a", f, "start-order:" + nm.replace(" ", ""), where,
                    "startProc: %s — the job can complete (and read/publish the flags) before the future is prepared for this run" % err)
        else:
            chk.ok("C10.a", f, "%s before the job is handed to the pool" % nm, where, "reachability", evals=2)
    f = fn1(prog, lambda f: f.name == "Future<void>::join", "Future<void>::join")[0]
    w, r = callees(f, "Signal::wait"), callees(f, "Signal::reset")
    cl = [s.node for s in q.stores(f) if f.r(s.lhs) == "this->_joinable" and fin.eval_expr(f, s.rhs, {}) == 0]
    err = ordered(f, [("_sig.wait()", w), ("_sig.reset()", r), ("_joinable = false", cl)])
    guarded = all(any(a[0] != "case" and a[1] and fin.key(f, a[0]) == "this->_joinable" for a in fin.dominating_atoms(f, f.node_pos(x))) for x in w)
    if err or not guarded:
        chk.bad("C10.a", f, "join-shape", "%s:%s" % (f.file, f.line), "join(): %s" % (err or "the wait is not guarded by _joinable"))
    else:
        chk.ok("C10.a", f, "join: wait -> reset -> _joinable = false, only when joinable", "%s:%s" % (f.file, f.line), "reachability + dominating atom", evals=3)

    # ------------------------------------------------------------------ C10.b / C10.c
    loops = [("ThreadPool::run", "push", "_dequeuedSignal", "_enqueuedSignal"),
             ("ThreadPool::~ThreadPool", "push", "_dequeuedSignal", "_enqueuedSignal"),
             ("ThreadContext::proc", "pop", "enqueuedSignal", "dequeuedSignal")]
    for fname, op, waitsig, wakesig in loops:
        f = fn1(prog, lambda f: f.gname.startswith(PRIV) and f.gname.endswith("::" + fname), fname)[0]
        where = "%s:%s" % (f.file, f.line)
        ops = [i for i in callees(f, "LockFreeQueue::" + op) if True]
        waits = [i for i in callees(f, "FastSignal::wait") if waitsig in f.r(i)]
        resets = [i for i in callees(f, "FastSignal::reset") if waitsig in f.r(i)]
        wakes = [i for i in callees(f, "FastSignal::set") if wakesig in f.r(i)]
        if not waits:
            chk.bad("C10.b", f, "no-wait-on-" + waitsig, where, "%s does not wait on %s" % (fname, waitsig))
            continue
        for w in waits:
            wp = f.node_pos(w)
            atoms = fin.dominating_atoms(f, wp)
            failed = [(a, [o for o in ops if o in f.desc(a[0])][0]) for a in atoms if a[0] != "case" and any(o in f.desc(a[0]) for o in ops) and
                      ((not a[1] and f.nodes[f.strip(a[0])]["k"] != "UnaryOperator") or (a[1] and f.nodes[f.strip(a[0])]["k"] == "UnaryOperator"))]
            # the outcome may be kept in a bool local (`popped = queue.pop(job); if(!popped) ...`): the definition reaching the test counts
            for a in atoms:
                if a[0] == "case" or a[1]:
                    continue
                x_ = f.strip(a[0])
                nx_ = f.nodes[x_]
                if nx_["k"] == "DeclRefExpr" and nx_["ref"].get("dk") == "local":
                    rd_ = q.reaching_def(f, nx_["ref"]["id"], x_)
                    if rd_ is not None and f.strip(rd_) in ops:
                        failed.append((a, f.strip(rd_)))
            # the re-check: an operation call dominated by the reset and failing on the edge to the wait
            recheck = None
            for a, opn in failed:
                if any(f.dominates_pos(f.node_pos(r), f.node_pos(opn)) and q.reaches(f, r, opn) for r in resets):
                    recheck = opn
            if recheck is None:
                chk.bad("C10.b", f, "sleep-without-reset-and-recheck:" + waitsig, f.where(w),
                        "%s.wait() is reached without `reset()` followed by a second, failed %s(): a wake-up sent between the first failed "
                        "attempt and the reset is lost and the thread sleeps although work/space is available" % (waitsig, op))
            else:
                chk.ok("C10.b", f, "wait on %s after reset + failed re-check" % waitsig, f.where(w), "dominating atoms: failed %s() after reset()" % op, evals=len(atoms) + 1)
        # C10.c
        exempt = []
        for o in ops:
            op_atoms = None
            # success edge(s) of this operation
            for b in f.blocks.values():
                c = b.get("cond")
                if c is None or o not in f.desc(c) or len(b["succ"]) != 2:
                    continue
                neg = f.nodes[f.strip(c)]["k"] == "UnaryOperator" and f.nodes[f.strip(c)]["op"] == "!"
                succ_edge = b["succ"][1] if neg else b["succ"][0]
                if succ_edge is None:
                    continue
                guards = [i for i, n in enumerate(f.nodes) if n["k"] == "CXXConstructExpr" and n.get("callee", "").endswith("Mutex::Guard::Guard")]
                under_guard = any(f.dominates_pos(f.node_pos(g), f.node_pos(o)) for g in guards)
                if fname == "ThreadPool::run" and under_guard:
                    exempt.append(o)   # exception (one symbol): the retire-a-worker ticket; it is picked up by the next wake-up
                    continue
                pth = f.find_path((succ_edge, 0), {f.exit_pos()}, avoid=q.pos_of(f, wakes), after_src=False)
                if pth is None and wakes:
                    chk.ok("C10.c", f, "successful %s() at line %s followed by %s.set()" % (op, f.nodes[o]["l"], wakesig), f.where(o), "no path from the success edge to the exit avoids the wake-up", evals=2)
                else:
                    chk.bad("C10.c", f, "handoff-without-wakeup:" + wakesig, f.where(o),
                            "after a successful %s() a path reaches the function exit without %s.set(): the peer sleeping on that signal is never woken" % (op, wakesig),
                            f.path_lines(pth) if pth else None)
        if exempt:
            chk.note("C10.c exception: retire-a-worker push under the pool mutex in ThreadPool::run (%d site) needs no wake-up" % len(exempt))
        # C10.i: one hand-over per job - once a push of a job has succeeded, no further push of the same job is evaluated
        if op == "push":
            for o in ops:
                def job_id(x):
                    a_ = q.call_args(f, x)
                    n_ = f.nodes[f.strip(a_[0])] if a_ else None
                    return n_["ref"].get("id") if n_ is not None and n_["k"] == "DeclRefExpr" else None
                same = [x for x in ops if job_id(x) is not None and job_id(x) == job_id(o)]
                lb_o = C.loop_blocks(f, o) or set()      # the loop nest around this push; leaving it, or waking the consumer, ends the hand-over of this job
                outside = set((b_, i_) for b_ in f.blocks if b_ not in lb_o for i_ in range(len(f.blocks[b_]["el"]) + 1))
                for b in f.blocks.values():
                    c = b.get("cond")
                    if c is None or o not in ([f.strip(c)] + list(f.desc(c))) or len(b["succ"]) != 2:
                        continue
                    v1 = fin.eval_expr(f, c, {fin.key(f, o): 1})
                    v0 = fin.eval_expr(f, c, {fin.key(f, o): 0})
                    if v1 is None or v0 is None or bool(v1) == bool(v0):
                        continue
                    succ_edge = b["succ"][0] if v1 else b["succ"][1]
                    if succ_edge is None:
                        continue
                    if succ_edge not in lb_o:
                        chk.ok("C10.i", f, "the successful %s at line %s leaves the retry loop" % (f.r(o)[:40], f.nodes[o]["l"]), f.where(o), "success edge", evals=1)
                        continue
                    again = f.find_path((succ_edge, 0), q.pos_of(f, same), avoid=outside | q.pos_of(f, wakes), after_src=False)
                    if again is not None:
                        chk.bad("C10.i", f, "job-pushed-again-after-success", f.where(o),
                                "after `%s` succeeded a path (lines %s) evaluates a push of the same job again: the job is queued twice, the "
                                "call runs twice and its record is deleted twice" % (f.r(o)[:50], f.path_lines(again)[:8]), evals=2)
                    else:
                        chk.ok("C10.i", f, "no second push after the successful %s at line %s" % (f.r(o)[:40], f.nodes[o]["l"]), f.where(o), "path search from the success edge", evals=2)

    # ------------------------------------------------------------------ C10.d
    shared = {"_tail", "_head", "tail", "head", "_state", "_pushedJobs", "_processedJobs"}
    qfs = fn1(prog, lambda f: f.gname.startswith(PRIV) and f.file.endswith("Future.cpp"), "Future.cpp private functions")
    n_sites = 0
    for f in qfs:
        for s in q.stores(f):
            ln = f.nodes[s.lhs]
            if ln["k"] == "MemberExpr" and ln["m"] in shared and (ln.get("mclsq", "").startswith("Future<void>::Private") or "LockFreeQueue" in ln.get("mcls", "")):
                if f.kind == "ctor":
                    continue
                n_sites += 1
                chk.bad("C10.d", f, "plain-write-of-shared-index:" + ln["m"], f.where(s.node),
                        "`%s` writes a ring index / counter shared between threads without an atomic operation: two producers (consumers) can "
                        "claim the same slot, a job is lost or run twice" % f.r(s.node)[:60])
    chk.ok("C10.d", "Future.cpp", "no plain store to %s outside constructors" % sorted(shared), "", "%d functions scanned" % len(qfs), evals=len(qfs))
    for opn, fill, publish in (("push", "placement", "head"), ("pop", "read", "tail")):
        for f in fn1(prog, lambda f: f.gname == PRIV + "LockFreeQueue::" + opn, "LockFreeQueue::" + opn):
            where = "%s:%s" % (f.file, f.line)
            cas = [i for i in q.calls(f) if f.nodes[i].get("callee") == "Atomic::compareAndSwap"]
            swp = [i for i in q.calls(f) if f.nodes[i].get("callee") == "Atomic::swap" and "->" + publish in f.r(i)]
            if opn == "push":
                body = C.placement_news(f)
            else:
                body = [s.node for s in q.stores(f) if "->data" in f.r(s.rhs if s.rhs is not None else s.lhs)] + [d for d, _o in C.dtor_events(f)]
            err = ordered(f, [("the CAS that claims the slot", cas), ("the slot payload access", body), ("the hand-off Atomic::swap(node->%s)" % publish, swp)])
            # ticket check before the CAS: `node->tail != tail` / `node->head != head` returns false
            own = "tail" if opn == "push" else "head"
            # the ticket variable is whatever the CAS expects as the old value of the ring index
            exp = set(q.no_casts(f.r(q.call_args(f, c_)[1])) for c_ in cas if len(q.call_args(f, c_)) >= 2)
            def ticket_ok(c_):
                # a dominating branch edge on which `node->tail == <expected>` holds, however the test is spelled
                for a_ in fin.dominating_atoms(f, f.node_pos(c_)):
                    if a_[0] == "case":
                        continue
                    cn = fin._canon(f, a_[0], a_[1])
                    if cn[0] != "val" and cn[1] == "==":
                        sides = {q.no_casts(cn[0]), q.no_casts(cn[2])}
                        if any(x in sides for x in exp) and any(re.fullmatch(r"\w+->%s" % own, y) for y in sides):
                            return True
                return False
            if not err and (not cas or not all(ticket_ok(c_) for c_ in cas)):
                err = "the slot ticket (node->%s) is not checked before the CAS" % own
            if not err:
                # the CAS result is compared with the expected value
                defs_ = q.local_defs(f)

                def carries(a0, c):
                    """the atom tests the CAS result: it contains the call, or a local every definition of which is that call"""
                    if c in f.desc(a0):
                        return True
                    for x in f.desc(a0):
                        nx = f.nodes[x]
                        if nx["k"] == "DeclRefExpr" and nx["ref"].get("dk") == "local":
                            dl = [d for d in defs_.get(nx["ref"]["id"], []) if d[2] is not None]
                            if dl and all(f.strip(d[2]) == c or c in f.desc(d[2]) for d in dl):
                                return True
                    return False
                okc = all(any(a[0] != "case" and carries(a[0], c) and "==" in fin.key(f, a[0]) and a[1] for a in fin.dominating_atoms(f, f.node_pos(b))) for c in cas for b in body)
                if not okc:
                    err = "the slot is used although the compare-and-swap may have failed"
            if err:
                chk.bad("C10.d", f, "queue-%s-protocol" % opn, where, "LockFreeQueue::%s: %s" % (opn, err))
            else:
                chk.ok("C10.d", f, "%s: ticket check -> CAS success -> payload -> publish" % opn, where, "dominance + reachability", evals=4)
    # FastSignal
    for nm, prim, sigcall, cmpv in (("set", "Atomic::testAndSet", "Signal::set", 0), ("reset", "Atomic::swap", "Signal::reset", 1)):
        f = fn1(prog, lambda f: f.gname == PRIV + "FastSignal::" + nm, "FastSignal::" + nm)[0]
        a = [i for i in q.calls(f) if f.nodes[i].get("callee") == prim and "_state" in f.r(i)]
        sc = callees(f, sigcall)
        # decision table over the previous state the atomic returns: the Signal is touched exactly on the transition
        ok = bool(a) and bool(sc)
        loads_ = [i for i in q.calls(f) if f.nodes[i].get("callee") == "Atomic::load" and "_state" in f.r(i)]
        if ok:
            for pv in (0, 1):
                for lv in ((0, 1) if loads_ else (None,)):
                    val_ = {fin.key(f, a[0]): pv}
                    if lv is not None:
                        val_[fin.key(f, loads_[0])] = lv
                    seen_, end_, _fv = fin.walk_vals(f, f.entry, val_)
                    called = any(s_ in seen_ for s_ in sc)
                    if isinstance(end_, str) and end_.startswith("undetermined"):
                        ok = False
                    elif called != (pv == cmpv):
                        ok = False
        if ok:
            chk.ok("C10.d", f, "FastSignal::%s changes the state atomically and forwards only on a transition" % nm, "%s:%s" % (f.file, f.line), "dominating atom on the atomic's result", evals=2)
        else:
            chk.bad("C10.d", f, "fastsignal-" + nm, "%s:%s" % (f.file, f.line), "FastSignal::%s must update _state with %s and call %s exactly when the previous state was %d" % (nm, prim, sigcall, cmpv))
    # C10.j: reset() clears the fast flag first and the slow Signal second; a set() in between raises the flag again and sets the Signal,
    # which the delayed Signal::reset() then cancels - and while the flag stays raised no later set() repeats the Signal (a waiter that is
    # already blocked sleeps for ever).  After resetting the Signal the flag has to be read again and the Signal restored when it is raised.
    chk.rule("C10.j", "FIN: in FastSignal::reset, on the path that resets the Signal, the flag is re-read afterwards and Signal::set is called "
                      "exactly when it is raised again (decision table over the swap's and the re-read's results)", floor=1)
    f = fn1(prog, lambda f: f.gname == PRIV + "FastSignal::reset", "FastSignal::reset")[0]
    sw_ = [i for i in q.calls(f) if f.nodes[i].get("callee") == "Atomic::swap" and "_state" in f.r(i)]
    ld_ = [i for i in q.calls(f) if f.nodes[i].get("callee") == "Atomic::load" and "_state" in f.r(i)]
    rs_, st_ = callees(f, "Signal::reset"), callees(f, "Signal::set")
    okj, whyj = True, ""
    if not sw_ or not rs_:
        okj, whyj = False, "the swap of _state / the Signal::reset call was not found"
    elif not ld_ or not all(q.reaches(f, r_, l_) for r_ in rs_ for l_ in ld_):
        okj, whyj = False, "after Signal::reset() the flag is not read again: a set() that slipped in between the swap and the reset has its signal cancelled for good"
    else:
        for lv in (0, 1):
            seen_, end_, _fv = fin.walk_vals(f, f.entry, {fin.key(f, sw_[0]): 1, fin.key(f, ld_[0]): lv})
            restored = any(s_ in seen_ for s_ in st_)
            if isinstance(end_, str) and end_.startswith("undetermined"):
                okj, whyj = False, "the outcome depends on something else (%s)" % end_
            elif restored != bool(lv):
                okj, whyj = False, "with the flag re-read as %d Signal::set is %scalled" % (lv, "" if restored else "not ")
    if okj:
        chk.ok("C10.j", f, "reset re-reads the flag after resetting the Signal and restores the Signal when it is raised", "%s:%s" % (f.file, f.line), "decision table (swap result 1) x (re-read 0 / 1)", evals=2)
    else:
        chk.bad("C10.j", f, "flag-not-revalidated-after-signal-reset", "%s:%s" % (f.file, f.line),
                "FastSignal::reset: %s - with several threads that reset and wait on one FastSignal (clients on a full queue, idle workers) a "
                "waiter then blocks although the flag is raised, and every later set() is swallowed by the raised flag" % whyj, evals=2)
    f = fn1(prog, lambda f: f.gname == PRIV + "FastSignal::wait", "FastSignal::wait")[0]
    ld = [i for i in q.calls(f) if f.nodes[i].get("callee") == "Atomic::load"]
    sw = callees(f, "Signal::wait")
    if ld and sw:
        chk.ok("C10.d", f, "FastSignal::wait reads the state atomically, else blocks on the signal", "%s:%s" % (f.file, f.line), "calls present", nontrivial=False)
    else:
        chk.bad("C10.d", f, "fastsignal-wait", "%s:%s" % (f.file, f.line), "FastSignal::wait must test _state with Atomic::load and otherwise block in Signal::wait")

    condition_wait_loops(prog, chk, "C10.m")
    trampoline_calls_once(prog, chk, "C10.p")
    # the completion handshake stands on Signal (src/Signal.cpp is anchored here as well): a flag written outside the critical section
    # can be missed by a joiner that has tested it but not yet blocked - join() then never returns.  Decided by C11's lock-state rules.
    from . import c11 as _c11
    from .server_common import Only
    _c11.run(prog, Only(chk, "C11.b", "C10.n"))
    _c11.run(prog, Only(chk, "C11.d", "C10.o"))
    # ------------------------------------------------------------------ C10.e
    f = fn1(prog, lambda f: f.gname == PRIV + "ThreadPool::ThreadContext::proc", "ThreadContext::proc")[0]
    where = "%s:%s" % (f.file, f.line)
    disp = [i for i, n in enumerate(f.nodes) if n["k"] == "CallExpr" and re.match(r"^job\.proc\(", f.r(i))]
    cnt = [i for i in q.calls(f) if f.nodes[i].get("callee") == "Atomic::increment" and "_processedJobs" in f.r(i)]
    pops = callees(f, "LockFreeQueue::pop")
    err = None
    if len(disp) != 1:
        err = "expected exactly one dispatch site `job.proc(job.args)`, found %d" % len(disp)
    elif not all(any(a[0] != "case" and a[1] and fin.key(f, a[0]) == "job.proc" for a in fin.dominating_atoms(f, f.node_pos(d))) for d in disp):
        err = "the dispatch is not guarded by `job.proc` (a null job is the termination ticket)"
    elif q.reaches(f, disp[0], disp[0]) and f.find_path(f.node_pos(disp[0]), {f.node_pos(disp[0])}, avoid=q.pos_of(f, pops)) is not None:
        err = "the dispatch can run twice without a pop in between"
    elif not cnt or not q.reaches(f, disp[0], cnt[0]) or q.reaches(f, cnt[0], disp[0]) and f.find_path(f.node_pos(cnt[0]), {f.node_pos(disp[0])}, avoid=q.pos_of(f, pops)) is not None:
        err = "_processedJobs is not incremented after the call"
    elif not all(any(a[0] != "case" and a[1] and fin.key(f, a[0]) == "job.proc" for a in fin.dominating_atoms(f, f.node_pos(c))) for c in cnt):
        err = ("_processedJobs is also incremented for the null termination ticket, which run() does not count in _pushedJobs: every retired "
               "worker lowers the computed number of busy threads by one, the pool shrinks to zero workers and stops spawning")
    elif "job.args" not in f.r(disp[0]):
        err = "the job is not called with its own arguments"
    if err:
        chk.bad("C10.e", f, "dispatch-shape", where, "worker loop: " + err)
    else:
        chk.ok("C10.e", f, "one dispatch per popped job, counted afterwards", where, "dominating atom + cycle search", evals=4)
    st = [s.node for s in q.stores(f) if f.r(s.lhs) == "this->_terminated" and fin.eval_expr(f, s.rhs, {}) == 1]
    if st and all(not q.reaches(f, s, d) for s in st for d in disp):
        chk.ok("C10.e", f, "_terminated is set only after the loop", where, "reachability", nontrivial=False)
    else:
        chk.bad("C10.e", f, "terminated-flag", where, "the worker must mark itself terminated only after leaving the dispatch loop")

    # ------------------------------------------------------------------ C10.f
    f = fn1(prog, lambda f: f.name == "Future<void>::startProc", "startProc")[0]
    tas = [i for i in q.calls(f) if f.nodes[i].get("callee") == "Atomic::testAndSet" and "_threadPoolLock" in f.r(i)]
    rel = [s.node for s in q.stores(f) if "_threadPoolLock" in f.r(s.lhs) and q.is_zero(f, s.rhs)]
    rel += [i for i in q.calls(f) if f.nodes[i].get("callee", "").startswith("Atomic::") and "_threadPoolLock" in f.r(i) and i not in tas]
    where = "%s:%s" % (f.file, f.line)
    if tas and rel:
        # from the exit of the spin loop every path to the function exit releases the lock
        defs0_ = q.local_defs(f)
        acq_edges = []
        kt = fin.key(f, tas[0])
        for b in f.blocks.values():
            c_ = b.get("cond")
            if c_ is None or len(b["succ"]) != 2 or None in b["succ"]:
                continue
            expr = c_
            cn_ = f.nodes[f.strip(c_)]
            if cn_["k"] == "DeclRefExpr" and cn_["ref"].get("dk") == "local":
                rd_ = q.reaching_def(f, cn_["ref"]["id"], f.strip(c_), defs0_)      # `const bool acquired = testAndSet(lock) == 0; if(acquired)`
                if rd_ is not None:
                    expr = rd_
            if tas[0] not in [f.strip(expr)] + list(f.desc(expr)):
                continue
            # the edge on which testAndSet returned 0 (the lock was free and is ours now), by evaluation of the test
            v0, v1 = fin.eval_expr(f, expr, {kt: 0}), fin.eval_expr(f, expr, {kt: 1})
            if v0 is None or v1 is None or bool(v0) == bool(v1):
                continue
            acq_edges.append((b["id"], b["succ"][0] if v0 else b["succ"][1]))
        ok = bool(acq_edges)
        for _b, out_edge in acq_edges:
            if f.find_path((out_edge, 0), {f.exit_pos()}, avoid=q.pos_of(f, rel), after_src=False) is not None:
                ok = False
        if ok:
            chk.ok("C10.f", f, "spin lock released on every path", where, "MPT from the spin-loop exit", evals=2)
        else:
            chk.bad("C10.f", f, "spinlock-not-released", where, "a path leaves the pool-creation block without `_threadPoolLock = 0`: every later first start() spins forever")
        # the pool pointer is read again after the lock was taken, and the allocation happens only where that value was null
        defs_ = q.local_defs(f)
        is_pool = lambda i_: re.search(r"_threadPool$", q.no_casts(f.r(i_))) is not None
        rereads = {}     # node of the store/declaration -> local id
        for did, dl in defs_.items():
            for kind, nd, init in dl:
                if init is not None and kind != "addr" and is_pool(init) and f.node_pos(nd) is not None and \
                   any(f.edge_dominates(e_, f.node_pos(nd)) for e_ in acq_edges):
                    rereads[nd] = did
        news = [i for i, n in enumerate(f.nodes) if n["k"] == "CXXNewExpr"]

        def rechecked(nw):
            for a in fin.dominating_atoms(f, f.node_pos(nw)):
                if a[0] == "case":
                    continue
                cn = fin._canon(f, a[0], a[1])
                nullk = None
                if cn[0] == "val" and not cn[2]:
                    nullk = a[0]
                elif cn[0] != "val" and cn[1] == "==" and "0" in (cn[0], cn[2]):
                    nn = f.nodes[f.strip(a[0])]
                    while nn["k"] == "UnaryOperator" and nn.get("op") == "!":
                        nn = f.nodes[f.strip(nn["c"][0])]
                    cs = nn["c"][-2:] if nn["k"] in ("BinaryOperator", "CXXOperatorCallExpr") else []
                    nullk = next((c_ for c_ in cs if not q.is_zero(f, c_)), None)
                if nullk is None:
                    continue
                kn = f.nodes[f.strip(nullk)]
                while kn["k"] == "UnaryOperator" and kn.get("op") == "!":
                    kn = f.nodes[f.strip(kn["c"][0])]
                if kn["k"] == "BinaryOperator" and kn.get("op") == "=" and kn["i"] in rereads:
                    return True        # `!(threadPool = _threadPool)`
                if kn["k"] == "DeclRefExpr" and kn["ref"].get("dk") == "local":
                    rd = q.reaching_def(f, kn["ref"]["id"], kn["i"], defs_)
                    if rd is not None and any(rereads.get(nd_) == kn["ref"]["id"] and init_ == rd for did_, dl_ in defs_.items() for k_, nd_, init_ in dl_ if nd_ in rereads):
                        return True
            return False
        if rereads and news and all(rechecked(n) for n in news):
            chk.ok("C10.f", f, "pool pointer re-read under the lock before creating a pool", where, "the allocation is dominated by the failed re-read", evals=2)
        else:
            chk.bad("C10.f", f, "pool-created-without-recheck", where, "the pool must be created only if it is still absent after the lock was taken (else two pools are created and one leaks its jobs)")
    else:
        chk.bad("C10.f", f, "spinlock-missing", where, "lazy pool creation is not protected by testAndSet(_threadPoolLock) / `_threadPoolLock = 0`")

    # ------------------------------------------------------------------ C10.g
    f = fn1(prog, lambda f: f.gname == PRIV + "ThreadPool::run", "ThreadPool::run")[0]
    guards = [i for i, n in enumerate(f.nodes) if n["k"] == "CXXConstructExpr" and n.get("callee", "").endswith("Mutex::Guard::Guard")]
    # scope ends: implicit destructor elements of the guards
    ends = []
    for b in f.blocks.values():
        for i, e in enumerate(b["el"]):
            if isinstance(e, dict) and e.get("k") == "autodtor" and "Guard" in e.get("t", ""):
                ends.append((b["id"], i))
    events = [i for i in q.calls(f) if re.search(r"this->_threads\.(append|remove)\(", f.r(i))]
    events += [s.node for s in q.stores(f) if f.r(s.lhs) == "this->_threadCount"]
    # C10.h: the count follows the workers: +1 with every worker context created, -1 with every retire ticket that was queued
    chk.rule("C10.h", "PAIRF: `_threadCount` is incremented on every path that appends a worker context and decremented exactly on the success "
                      "edge of queueing a retire ticket (a null job)", floor=2)
    incs = [s.node for s in q.stores(f) if f.r(s.lhs) == "this->_threadCount" and s.op in ("++", "+=")]
    decs = [s.node for s in q.stores(f) if f.r(s.lhs) == "this->_threadCount" and s.op in ("--", "-=")]
    apps = [i for i in q.calls(f) if re.search(r"this->_threads\.append\(", f.r(i))]
    if apps and incs and all(C.paths_all_pass(f, f.node_pos(a_), q.pos_of(f, incs)) for a_ in apps) and all(C.paths_all_pass(f, f.node_pos(i_), q.pos_of(f, apps)) for i_ in incs):
        chk.ok("C10.h", f, "++_threadCount paired with _threads.append()", f.where(apps[0]), "each on every path through the other", evals=2)
    else:
        chk.bad("C10.h", f, "thread-count-not-incremented-with-worker", "%s:%s" % (f.file, f.line), "a worker context is appended without `++_threadCount` on the same path (or the other way round)")
    # retire tickets: pushes of a job whose proc is null
    tickets = []
    for c_ in q.calls(f):
        if re.search(r"LockFreeQueue(<.*>)?::push$", f.nodes[c_].get("callee", "")) and q.call_args(f, c_):
            a0 = f.nodes[f.strip(q.call_args(f, c_)[0])]
            if a0["k"] == "DeclRefExpr" and a0["ref"].get("dk") == "local":
                init_ = q.single_def(f, a0["ref"]["id"])
                if init_ is not None and re.match(r"^\{?\(?0", q.no_casts(f.r(init_)).replace("Future::Private::Job", "").strip("{( ")):
                    tickets.append(c_)
    if not tickets:
        raise AnalysisBroken("ThreadPool::run: the retire-ticket push (a job with a null proc) was not found")
    for t_ in tickets:
        kt = fin.key(f, t_)
        good = False
        for d_ in decs:
            at = fin.dominating_atoms(f, f.node_pos(d_))
            if any(a[0] != "case" and t_ in f.desc(a[0]) and fin.eval_expr(f, a[0], {kt: 1}) is not None and bool(fin.eval_expr(f, a[0], {kt: 1})) == a[1]
                   and bool(fin.eval_expr(f, a[0], {kt: 0})) != a[1] for a in at):
                good = True
        if good:
            chk.ok("C10.h", f, "--_threadCount on the success edge of the retire-ticket push", f.where(t_), "dominating atom on the push result", evals=2)
        else:
            chk.bad("C10.h", f, "retired-worker-not-subtracted", f.where(t_),
                    "a retire ticket is queued but `_threadCount` is not decremented on its success edge: the pool keeps believing the worker exists, "
                    "retires the remaining ones and never spawns a replacement (started calls are never executed)")
    for ev in events:
        p = f.node_pos(ev)
        alive = False
        for g in guards:
            gp = f.node_pos(g)
            if f.dominates_pos(gp, p) and f.find_path(gp, {p}, avoid=set(ends)) is not None and \
               f.find_path(f.entry_pos(), {p}, avoid={gp}, after_src=False) is None:
                # no path from the guard to the event may cross the guard's destructor
                crossing = any(f.find_path(gp, {e}) is not None and f.find_path(e, {p}) is not None and f.find_path(e, {gp}) is None for e in ends)
                if not crossing or f.find_path(gp, {p}, avoid=set(ends)) is not None:
                    alive = True
        if alive:
            chk.ok("C10.g", f, "`%s` under the pool mutex" % f.r(ev)[:40], f.where(ev), "a live Mutex::Guard dominates", evals=2)
        else:
            chk.bad("C10.g", f, "worker-list-without-mutex", f.where(ev), "`%s` modifies the worker list / count without holding the pool mutex (two starters corrupt the list)" % f.r(ev)[:50])


def condition_wait_loops(prog, chk, rid):
    """Signal::wait sits under join(), both destructors, the result conversion and the pool's FastSignal.  A condition variable may wake
    without the flag having been raised (a spurious wake-up, or the late broadcast of an EARLIER set() of a re-used Signal): the flag
    has to be tested again after every return of pthread_cond_(timed)wait before wait() reports success."""
    chk.rule(rid, "MPT: in Signal::wait / wait(timeout) no path leads from a return of pthread_cond_wait / pthread_cond_timedwait to "
                  "`return true` without evaluating a test of `signaled` in between", floor=2)
    fs = [f for f in prog.functions.values() if f.name == "Signal::wait" and f.file.endswith("src/Signal.cpp") and f.blocks]
    if len(fs) < 2:
        raise AnalysisBroken("Signal::wait() / Signal::wait(int64) not found")
    for f in sorted(fs, key=lambda g: g.sig):
        cw = [c for c in q.calls(f) if (f.nodes[c].get("callee") or "") in ("pthread_cond_wait", "pthread_cond_timedwait")]
        if not cw:
            raise AnalysisBroken("%s: no pthread_cond_(timed)wait call" % f.sig)
        tests = set()
        for b in f.blocks.values():
            c = b.get("cond")
            if c is not None and len(b["succ"]) == 2 and any(f.nodes[x]["k"] == "MemberExpr" and f.nodes[x].get("m") == "signaled" for x in [f.strip(c)] + list(f.desc(c))):
                tests.add((b["id"], len(b["el"])))
                p_ = f.node_pos(f.strip(c))
                if p_ is not None:
                    tests.add(p_)
        # where success is decided: a `return <non-zero>`, or the definition of a returned local with a value other than constant 0
        rets = []
        defs_ = q.local_defs(f)
        for i, n in enumerate(f.nodes):
            if n["k"] != "ReturnStmt" or not n["c"]:
                continue
            v_ = fin.eval_expr(f, n["c"][0], {})
            if v_ == 0:
                continue
            x_ = f.nodes[f.strip(n["c"][0])]
            dl_ = [d_ for d_ in defs_.get(x_["ref"]["id"], []) if d_[0] != "addr"] if v_ is None and x_["k"] == "DeclRefExpr" and x_["ref"].get("dk") == "local" else []
            dl_ = [d_ for d_ in dl_ if d_[2] is not None]      # `bool result;` without initialiser defines no value
            if dl_ and not any(d_[0] == "addr" for d_ in defs_.get(x_["ref"]["id"], [])):
                rets += [d_[1] for d_ in dl_ if fin.eval_expr(f, d_[2], {}) != 0]
            else:
                rets.append(i)
        bad = None
        for w in cw:
            for r in rets:
                if f.node_pos(w) is None or f.node_pos(r) is None:
                    continue
                pth = f.find_path(f.node_pos(w), {f.node_pos(r)}, avoid=tests)
                if pth is not None:
                    bad = (w, r)
        if bad:
            chk.bad(rid, f, "wake-up-without-retest", f.where(bad[1]),
                    "after `%s` returns, `%s` is reached without testing `signaled` again: a spurious wake-up - or the delayed broadcast of an "
                    "earlier set() when the Signal is re-used (Future restarted) - ends the wait although the flag is down: join() and the result "
                    "conversion return before the call has completed" % (f.nodes[bad[0]]["callee"], q.no_casts(f.r(bad[1]))[:20]), evals=len(cw) * max(1, len(rets)))
        else:
            chk.ok(rid, f, "every wake-up re-tests `signaled` before success is reported", f.where(cw[0]), "no test-free path from the wait to a `return true`", evals=len(cw) * max(1, len(rets)))


def trampoline_calls_once(prog, chk, rid):
    """the worker-side trampoline Future<..>::proc<Call>(call*) is where a started call is executed: exactly one `call()` on every path
    (abort() is a cooperative flag the function may poll - it does not cancel the execution), before the completion is published"""
    chk.rule(rid, "MPT/CNT: every path through Future<..>::proc<Call> passes exactly one `->call()` on the call record, and passes it before "
                  "the completion is published (set())", floor=4)
    fs = [f for f in prog.functions.values() if re.match(r"^Future<.*>::proc$", f.tname or f.name or "") and f.file.endswith("Future.hpp") and f.blocks and len(f.params) == 1]
    if not fs:
        fs = [f for f in prog.functions.values() if f.short == "proc" and f.file.endswith("Future.hpp") and f.blocks and len(f.params) == 1]
    if len(fs) < 4:
        raise AnalysisBroken("Future<..>::proc<Call> trampolines: only %d instantiated" % len(fs))
    for f in sorted(fs, key=lambda g: g.sig):
        p = f.params[0]["n"]
        calls_ = [c for c in q.calls(f) if (f.nodes[c].get("callee") or "").endswith("::call") and q.call_object(f, c) is not None and
                  q.no_casts(f.r(q.call_object(f, c))).lstrip("*(").rstrip(")") == p]
        sets_ = [c for c in q.calls(f) if (f.nodes[c].get("callee") or "").endswith("::set")]
        where = "%s:%s" % (f.file, f.line)
        if not calls_:
            chk.bad(rid, f, "trampoline-without-call", where, "the trampoline never calls `%s->call()`: the started function is not executed" % p)
            continue
        skip = f.find_path(f.entry_pos(), {f.exit_pos()}, avoid=q.pos_of(f, calls_), after_src=False)
        twice = any(q.reaches(f, a, b) for a in calls_ for b in calls_)
        late = [s_ for s_ in sets_ if f.node_pos(s_) is not None and f.find_path(f.entry_pos(), {f.node_pos(s_)}, avoid=q.pos_of(f, calls_), after_src=False) is not None]
        if skip is not None:
            chk.bad(rid, f, "call-not-executed-on-every-path", f.where(calls_[0]),
                    "a path through the trampoline (lines %s) completes the future without `%s->call()`: the started function runs zero times "
                    "(e.g. when abort() was requested before a worker picked the job up), the converted result is whatever `result` held" % (f.path_lines(skip)[:6], p), evals=len(calls_) + len(sets_))
        elif twice:
            chk.bad(rid, f, "call-executed-twice", f.where(calls_[0]), "`%s->call()` can be executed more than once on a path" % p, evals=len(calls_))
        elif late:
            chk.bad(rid, f, "completion-published-before-call", f.where(late[0]), "set() is reachable before `%s->call()`: join() returns before the execution" % p, evals=len(calls_) + len(sets_))
        else:
            chk.ok(rid, f, "exactly one call() on every path, before set()", f.where(calls_[0]), "MPT from the entry; no call reaches another", evals=len(calls_) + len(sets_) + 1)
