"""C08.g — ALIAS rule for Buffer: a source that may lie in this buffer's own storage is not read after the storage was
freed, moved or rewritten.

Slots filled from the class itself:
  foreign pointer sources   parameters of type `const byte *` and the storage of `const Buffer &` parameters
                            (P.bufferStart, P.bufferEnd, the conversion operator)
  storage-changing events   calls of non-const Buffer members on *this, `delete[] buffer`, Memory::move/copy whose
                            destination is derived from buffer / bufferStart / bufferEnd
  accepted idiom            a `delete[] buffer` dominated by the true edge of `L > _capacity` where L is the length with
                            which the source is later copied: a source range longer than the capacity cannot lie in the
                            owned block (and when nothing is owned, `buffer` is null and nothing is freed)
"""
import re
from .. import q
from .. import fin

OWN = re.compile(r"this->(buffer|bufferStart|bufferEnd)\b")


def _is_this_call(f, i):
    n = f.nodes[i]
    if n["k"] != "CXXMemberCallExpr" or not n.get("callee", "").startswith("Buffer::"):
        return False
    o = q.call_object(f, i)
    return o is None or f.nodes[o]["k"] == "CXXThisExpr"


def _events(prog, f, defs):
    """[(node, kind, text)] of storage-changing events"""
    ev = []
    for i in q.calls(f):
        n = f.nodes[i]
        if _is_this_call(f, i):
            g = prog.functions.get(n.get("csig"))
            if g is not None and g.d.get("const"):
                continue
            ev.append((i, "call", n["callee"].split("::")[-1] + "()"))
        elif n.get("callee") in ("Memory::move", "Memory::copy"):
            a = q.call_args(f, i)
            if a and OWN.search(q.no_casts(q.xr(f, a[0], defs))):
                ev.append((i, "write", n["callee"]))
    for i in f.find(lambda n: n["k"] == "CXXDeleteExpr"):
        if "this->buffer" in f.r(i):
            ev.append((i, "delete", "delete[] buffer"))
    return ev


def _copy_len_of_read(f, r, defs):
    """if the read r of a source is the source argument of Memory::copy/move, the rendered length argument"""
    x = r
    while x is not None:
        n = f.nodes[x]
        if n["k"] == "CallExpr" and n.get("callee") in ("Memory::copy", "Memory::move"):
            a = q.call_args(f, x)
            if len(a) == 3 and r in f.desc(a[1]):
                return q.no_casts(q.xr(f, a[2], defs))
            return None
        x = f.up(x)
    return None


def _delete_excused(f, d, r, defs):
    """accepted idiom: delete dominated by `L > this->_capacity` (true) with L the copy length of the later read"""
    L = _copy_len_of_read(f, r, defs)
    if L is None:
        return False
    for a in fin.dominating_atoms(f, f.node_pos(d)):
        if a[0] == "case":
            continue
        node, truth = a
        n = f.nodes[f.strip(node)]
        if n["k"] != "BinaryOperator" or len(n["c"]) != 2:
            continue
        l = q.no_casts(q.xr(f, n["c"][0], defs))
        rr = q.no_casts(q.xr(f, n["c"][1], defs))
        op = n["op"]
        if truth and ((op == ">" and l == L and rr == "this->_capacity") or (op == "<" and rr == L and l == "this->_capacity")):
            return True
        if not truth and ((op == "<=" and l == L and rr == "this->_capacity") or (op == ">=" and rr == L and l == "this->_capacity")):
            return True
    return False


def run(prog, chk, fs):
    rid = "C08.g"
    chk.rule(rid, "ALIAS: a byte source that may lie in this buffer's own storage (a `const byte*` parameter, the storage of a "
                  "`const Buffer&` parameter) is not read after a call or statement that may free, move or overwrite that storage; "
                  "own-storage-derived arguments are not handed to a member that reads them after such an event", floor=5)
    mine = [f for f in fs if f.blocks and f.kind not in ("ctor", "dtor") and not f.d.get("const")]
    hazard = {}   # sig -> {param index: description}
    info = {}
    for f in mine:
        defs = q.local_defs(f)
        ev = _events(prog, f, defs)
        info[f.sig] = (defs, ev)
        where = "%s:%s" % (f.file, f.line)
        for k, p in enumerate(f.params):
            if not re.match(r"^const (unsigned char|byte) \*$", p["t"]):
                continue
            reads = [i for i, n in enumerate(f.nodes) if n["k"] == "DeclRefExpr" and n["ref"]["id"] == p["id"]]
            late = None
            for r in reads:
                for e, kind, text in ev:
                    if r in f.desc(e):
                        continue            # the source argument of the event itself is read before the event takes effect
                    if not q.reaches(f, e, r):
                        continue
                    if kind == "delete" and _delete_excused(f, e, r, defs):
                        continue
                    late = (r, e, text)
                    break
                if late:
                    break
            if late:
                r, e, text = late
                hazard.setdefault(f.sig, {})[k] = text
                chk.bad(rid, f, "param-read-after-storage-change:" + p["n"], f.where(r),
                        "`%s` is read after %s (line %s), which may have freed, moved or overwritten the bytes it points to when "
                        "the argument lies in this buffer's own storage (b.%s(b, n)): stale or freed bytes are copied"
                        % (p["n"], text, f.nodes[e].get("l"), f.short), evals=len(ev))
            else:
                chk.ok(rid, f, "parameter %s is read before any storage-changing event" % p["n"], where,
                       "%d events, %d reads, reachability (+ capacity-guard idiom for delete[])" % (len(ev), len(reads)), evals=max(1, len(ev)))
    # Buffer-typed parameters
    for f in mine:
        defs, ev = info[f.sig]
        where = "%s:%s" % (f.file, f.line)
        for p in f.params:
            if p["t"] != "const Buffer &":
                continue
            P = re.escape(p["n"])
            stor = re.compile(r"\b%s\.(bufferStart|bufferEnd|buffer|operator (const )?unsigned char \*\(\))" % P)
            found = False
            # (i) storage handed to a hazardous member of *this
            for c in q.calls(f):
                if not _is_this_call(f, c):
                    continue
                hz = hazard.get(f.nodes[c].get("csig"))
                if not hz:
                    continue
                args = q.call_args(f, c)
                for k, text in hz.items():
                    if k < len(args) and stor.search(q.no_casts(q.xr(f, args[k], defs))):
                        found = True
                        chk.bad(rid, f, "own-storage-passed-to-hazard-member:" + f.nodes[c]["callee"].split("::")[-1], f.where(c),
                                "`%s` is taken from the Buffer parameter `%s`, which may be this buffer itself, and handed to a member "
                                "that reads it after %s: b.%s(b) copies stale or freed bytes" % (f.r(args[k])[:60], p["n"], text, f.short))
            # (ii) storage pointer captured in a local before an event and used after it
            for did, dl in defs.items():
                for kind, nd, init in dl:
                    if init is None or kind == "addr":
                        continue
                    t = q.no_casts(f.r(init))
                    if not stor.search(t) or not f.nodes[f.strip(init)].get("t", "").endswith("*"):
                        continue
                    for e, ekind, text in ev:
                        if not q.reaches(f, nd, e):
                            continue
                        uses = [i for i, n in enumerate(f.nodes) if n["k"] == "DeclRefExpr" and n["ref"]["id"] == did and q.reaches(f, e, i)]
                        if uses:
                            found = True
                            chk.bad(rid, f, "storage-pointer-captured-before-storage-change:" + p["n"], f.where(nd),
                                    "a pointer into the storage of `%s` is captured before %s and used after it; when `%s` is this "
                                    "buffer the pointer is stale" % (p["n"], text, p["n"]))
                            break
            # (iii) direct re-read after a raw in-function event (the fields are re-seated only afterwards)
            for i, n in enumerate(f.nodes):
                if n["k"] != "MemberExpr" or not stor.fullmatch(q.no_casts(f.r(i))):
                    continue
                for e, ekind, text in ev:
                    if ekind == "call" or i in f.desc(e) or not q.reaches(f, e, i):
                        continue
                    if ekind == "delete" and _delete_excused(f, e, i, defs):
                        continue
                    # re-seated in between?
                    fld = q.no_casts(f.r(i)).split(".")[-1]
                    seats = [w.pos for w in q.field_writes(f, fld)]
                    if f.find_path(f.node_pos(e), {f.node_pos(i)}, avoid=set(seats)) is None:
                        continue
                    found = True
                    chk.bad(rid, f, "argument-storage-read-after-raw-storage-change:" + p["n"], f.where(i),
                            "`%s` is read after %s and before this buffer's `%s` is re-seated; when `%s` is this buffer the value is stale"
                            % (f.r(i), text, fld, p["n"]))
                    break
            if not found:
                chk.ok(rid, f, "storage of Buffer parameter `%s` is only read where it is current" % p["n"], where,
                       "%d events; hand-over to hazardous members, captured pointers and raw re-reads checked" % len(ev), evals=max(1, len(ev)))

    # ---- C08.h: self-assignment
    chk.rule("C08.h", "operator=(const Buffer& other): a Memory::copy (memcpy: ranges must not overlap) from the argument's storage into "
                      "this buffer's storage is dominated by an alias guard (this != &other), or Memory::move is used", floor=1)
    for f in [f for f in fs if f.kind == "copyassign"]:
        defs = q.local_defs(f)
        other = f.params[0]
        P = re.escape(other["n"])
        guard_edges = fin.alias_guard_edges(f, other["n"])
        n_ok = n_bad = 0
        for c in q.calls_named(f, "Memory::copy"):
            a = q.call_args(f, c)
            if len(a) != 3:
                continue
            dst = q.no_casts(q.xr(f, a[0], defs))
            src = q.no_casts(q.xr(f, a[1], defs))
            if not (OWN.search(dst) and re.search(r"\b%s\.(bufferStart|bufferEnd|buffer)\b" % P, src)):
                continue
            if any(f.edge_dominates(e, f.node_pos(c)) for e in guard_edges):
                n_ok += 1
                chk.ok("C08.h", f, "copy from the argument under an alias guard", f.where(c), "edge dominance of this != &%s" % other["n"])
            else:
                n_bad += 1
                chk.bad("C08.h", f, "self-assignment-overlapping-copy", f.where(c),
                        "Memory::copy(%s, %s, ...) copies from the argument's storage into this buffer's storage without an alias guard: "
                        "with b = b and a slid window (bufferStart > buffer) the memcpy ranges overlap" % (dst[:40], src[:40]))
        if not n_ok and not n_bad:
            chk.ok("C08.h", f, "operator= does not memcpy from the argument's storage into its own", "%s:%s" % (f.file, f.line),
                   "no such Memory::copy call", nontrivial=False)
