"""C08 — Buffer: terminator after every end update, ownership <-> capacity pairing,
allocation size, release/re-seat pairing, swap hand-over, rule of three.

Decides necessary conditions only (DESIGN.md section 3, C08); content equality with a
reference byte queue is not decided."""
import re
from .. import q, fin
from .. import containers as C
from ..facts import AnalysisBroken
from . import lin_buffer
from . import c08_alias

EXPLANATION = (
    "Static path/effect rules over every member function of class Buffer (AST + clang CFG of /repo's current "
    "include/nstd/Buffer.hpp): (a) after every write of bufferEnd on a path where the buffer may be owned, a zero "
    "store through bufferEnd lies on every path to the exit (MPT, with a nullness dataflow for `buffer` that "
    "exempts non-owning paths); (b) `buffer = 0` is paired with `_capacity = 0` and `buffer = new char[X + 1]` with "
    "`_capacity = X` on every path (PAIRF); (c) each delete[] of the block outside the destructor is followed by a "
    "re-seat of `buffer` on every path; (d) swap exchanges all four fields; (e) rule of three; (f) linear-inequality "
    "reasoning (own Fourier-Motzkin entailment over the guards that dominate each site and the class invariant "
    "buffer<=bufferStart<=bufferEnd<=buffer+_capacity when owned) shows every Memory::copy/move target and every "
    "terminator store to lie inside the allocation. Not decided: equality of contents with a reference byte queue.")


def methods(prog):
    fs = [f for f in prog.functions.values() if f.clsq == "Buffer"]
    if len(fs) < 20:
        raise AnalysisBroken("class Buffer: only %d member functions found" % len(fs))
    return sorted(fs, key=lambda f: f.line)


def term_stores(f):
    """nodes of `*this->bufferEnd = 0`"""
    out = []
    for s in q.stores(f):
        if s.op == "=" and f.r(s.lhs) == "*this->bufferEnd" and q.is_zero(f, s.rhs):
            out.append(s.node)
    return out


def run(prog, chk):
    chk.extra["explanation"] = EXPLANATION
    fs = methods(prog)
    chk.rule("C08.a", "MPT: every write of bufferEnd that may happen on an owning buffer is followed on every path to "
                      "the exit by `*bufferEnd = 0` (or by another bufferEnd write that carries the same obligation)", floor=12)
    chk.rule("C08.b0", "PAIRF: every path through `buffer = 0` also passes `_capacity = 0`", floor=2)
    chk.rule("C08.b1", "PAIRF: every `new char[E]` seated in `buffer` has E == X + 1 and `_capacity` is X on that path", floor=6)
    chk.rule("C08.del", "MPT: delete[] of the owned block outside the destructor is followed by a re-seat of `buffer` on every path", floor=5)
    chk.rule("C08.swap", "swap hands over buffer, bufferStart, bufferEnd and _capacity in both directions", floor=8)
    chk.rule("C08.r3", "rule of three: destructor, copy constructor and copy assignment are user-provided", floor=1)

    for f in fs:
        if f.d.get("const") or not f.blocks:
            continue
        defs = q.local_defs(f)
        # ---------------------------------------------------------------- C08.a
        if f.short == "swap":
            # swap hands windows over together with the bytes (and terminators) they frame: a store that sets an end pointer to anything
            # but the other side's previous end pointer creates a new window and owes its terminator like everywhere else
            for s_ in q.stores(f):
                lt_ = q.no_casts(f.r(s_.lhs))
                if not re.search(r"(^this->|\.)bufferEnd$", lt_) or s_.rhs is None or s_.op != "=":
                    continue
                rt_ = q.no_casts(q.xr(f, s_.rhs, defs)).strip("()")
                if re.search(r"(^this->|^\w+\.)bufferEnd$", rt_):
                    continue        # the hand-over
                obj_ = lt_[:-len("bufferEnd")]
                terms_ = [t_.node for t_ in q.stores(f) if t_.op == "=" and t_.rhs is not None and q.is_zero(f, t_.rhs) and
                          q.no_casts(f.r(t_.lhs)).replace(" ", "") in ("*" + obj_ + "bufferEnd", "*(" + obj_ + "bufferEnd)")]
                if terms_ and C.after_all_pass(f, f.node_pos(s_.node), q.pos_of(f, terms_))[0]:
                    chk.ok("C08.a", f, "new window in swap terminated", f.where(s_.node), "zero store through the new end on every path", evals=2)
                else:
                    chk.bad("C08.a", f, "bufferEnd-write-without-terminator:" + rt_[:30], f.where(s_.node),
                            "swap sets `%s` to `%s`, which is not the window handed over by the other side, and no path stores the terminating zero "
                            "through it: an owning buffer that is empty but whose window had slid is re-anchored on old data" % (lt_, rt_[:60]), evals=2)
        if f.short != "swap":
            _sin, sat = q.nullness(f, "this->buffer")
            writes = q.field_writes(f, "bufferEnd")
            T = term_stores(f)
            wnodes = [w.node for w in writes if w.node is not None]
            # a zero stored through the very address that is (or becomes) bufferEnd terminates it as well, whichever of the two
            # statements comes first: `*emptyPos = 0; bufferEnd = emptyPos;`  `newBuffer[size] = 0; bufferEnd = newBuffer + size;`
            zero_at = {}
            for s_ in q.stores(f):
                if s_.op != "=" or s_.rhs is None or not q.is_zero(f, s_.rhs):
                    continue
                l_ = f.nodes[s_.lhs]
                if l_["k"] == "UnaryOperator" and l_.get("op") == "*" and l_["c"]:
                    zero_at.setdefault(q.no_casts(q.xr(f, l_["c"][0], defs)).strip("()"), []).append(s_.node)
                elif l_["k"] in ("MemberExpr", "DeclRefExpr") and "*" not in (l_.get("t") or "*"):
                    # the object itself is zeroed: that is a zero at its address (`_capacity = 0` for the empty window at &_capacity)
                    zero_at.setdefault("&" + q.no_casts(f.r(s_.lhs)), []).append(s_.node)
                elif l_["k"] == "ArraySubscriptExpr":
                    zero_at.setdefault("%s + %s" % (q.no_casts(q.xr(f, l_["c"][0], defs)).strip("()"), q.no_casts(q.xr(f, l_["c"][1], defs)).strip("()")), []).append(s_.node)
            for w in writes:
                st = sat.get(w.pos, "top")
                what = "write of bufferEnd at line %s" % (f.nodes[w.node]["l"] if w.node is not None else f.line)
                if st == "null":
                    chk.ok("C08.a", f, what, f.where(w.node) if w.node is not None else "", "buffer is null on every path to this write (non-owning)")
                    continue
                same = zero_at.get(q.no_casts(q.xr(f, w.rhs, defs)).strip("()"), []) if getattr(w, "rhs", None) is not None else []
                if same and C.paths_all_pass(f, w.pos, q.pos_of(f, same)):
                    chk.ok("C08.a", f, what, f.where(w.node) if w.node is not None else "", "a zero is stored through the same address on every path through this write", evals=2)
                    continue
                avoid = q.pos_of(f, T) | (q.pos_of(f, wnodes) - {w.pos})
                # a path that leaves over the `buffer is null` edge of a test ends in a non-owning buffer: no terminator is owed there
                cut = set()
                for b_ in f.blocks.values():
                    nt_ = fin.null_test(f, b_.get("cond")) if len(b_["succ"]) == 2 and b_.get("tk") != "SwitchStmt" else None
                    if nt_ is not None and nt_[0] == "this->buffer" and b_["succ"][nt_[1]] is not None:
                        cut.add((b_["id"], b_["succ"][nt_[1]]))
                path = fin.path_with_cuts(f, w.pos, f.exit_pos(), avoid=avoid, cut=cut)
                if path is None:
                    chk.ok("C08.a", f, what, f.where(w.node) if w.node is not None else "", "every path to the exit stores 0 through bufferEnd", evals=2)
                else:
                    chk.bad("C08.a", f, "bufferEnd-write-without-terminator:" + _branch_tag(f, w),
                            f.where(w.node) if w.node is not None else "%s:%s" % (f.file, f.line),
                            "bufferEnd is updated on a possibly owning buffer and a path to the exit stores no terminating zero through it",
                            f.path_lines(path))
        # ---------------------------------------------------------------- C08.b0
        cap_writes = q.field_writes(f, "_capacity")
        for w in q.field_writes(f, "buffer"):
            if w.rhs is None or f.short == "swap":
                continue
            if q.is_zero(f, w.rhs):
                Z = set(c.pos for c in cap_writes if c.rhs is not None and q.is_zero(f, c.rhs))
                pre = f.find_path(f.entry_pos(), {w.pos}, avoid=Z - {w.pos}, after_src=False)
                post = f.find_path(w.pos, {f.exit_pos()}, avoid=Z)
                if pre is not None and post is not None:
                    chk.bad("C08.b0", f, "buffer-null-without-capacity-reset", f.where(w.node) if w.node is not None else f.file,
                            "`buffer = 0` (ownership given up) on a path that leaves `_capacity` unchanged: later in-place "
                            "operations trust the stale capacity", f.path_lines(pre + post))
                else:
                    chk.ok("C08.b0", f, "buffer = 0 paired with _capacity = 0", f.where(w.node) if w.node is not None else "", "prefix/suffix path search", evals=2)
        # ---------------------------------------------------------------- C08.b1
        for i in f.find(lambda n: n["k"] == "CXXNewExpr" and n.get("arr")):
            n = f.nodes[i]
            if not _flows_to_buffer(f, i):
                continue
            size_expr = n["c"][0]
            e = q.xr(f, size_expr, defs)
            where = f.where(i)
            if not (e.startswith("(") and e.endswith(" + 1)")):
                chk.bad("C08.b1", f, "allocation-without-terminator-byte", where,
                        "block seated in `buffer` is allocated with %s elements; the form X + 1 (room for the zero byte after "
                        "X data bytes) is required" % e)
                continue
            X = e[1:-len(" + 1)")]
            npos = f.node_pos(i)
            good = set()
            for c in cap_writes:
                if c.rhs is not None and q.no_casts(q.xr(f, c.rhs, defs)) == q.no_casts(X):
                    good.add(c.pos)
            if q.no_casts(X) == "this->_capacity":
                # the block is sized from _capacity itself (copy constructor)
                chk.ok("C08.b1", f, "new char[_capacity + 1]", where, "allocation sized from the stored capacity")
                continue
            bad_caps = set(c.pos for c in cap_writes) - good
            pre = f.find_path(f.entry_pos(), {npos}, avoid=good, after_src=False)
            post = f.find_path(npos, {f.exit_pos()}, avoid=good)
            if pre is not None and post is not None:
                chk.bad("C08.b1", f, "capacity-mismatch", where,
                        "block of %s bytes is seated in `buffer` but `_capacity` is not set to %s on this path" % (e, X),
                        f.path_lines(pre + post))
                continue
            # no other capacity write may follow the matching one
            later_bad = False
            for g in good:
                for b in bad_caps:
                    if f.find_path(g, {b}) is not None and f.find_path(b, {f.exit_pos()}, avoid=good) is not None:
                        later_bad = True
            if later_bad:
                chk.bad("C08.b1", f, "capacity-overwritten", where, "`_capacity` is overwritten with a different value after being set to %s" % X)
            else:
                chk.ok("C08.b1", f, "new char[%s] with _capacity = %s" % (e, X), where, "expanded size expression and prefix/suffix path search", evals=3)
        # ---------------------------------------------------------------- C08.del
        if f.kind != "dtor":
            bw = q.field_writes(f, "buffer")
            for i in f.find(lambda n: n["k"] == "CXXDeleteExpr"):
                if "this->buffer" not in f.r(i):
                    continue
                p = f.node_pos(i)
                path = f.find_path(p, {f.exit_pos()}, avoid=set(w.pos for w in bw))
                # the window pointers point into the block just freed: both have to be re-seated as well
                dang = None
                for fld in ("bufferStart", "bufferEnd"):
                    fw = set(w.pos for w in q.field_writes(f, fld) if w.pos is not None and w.rhs is not None and
                             not re.fullmatch(r"\(?this->buffer(Start|End)\)?", q.no_casts(f.r(w.rhs)).strip()))
                    pth = f.find_path(p, {f.exit_pos()}, avoid=fw)
                    if pth is not None and not fin.always_after(f, p, fw):      # (paths that contradict what is known at the delete do not count)
                        dang = (fld, pth)
                if path is None and dang is not None:
                    chk.bad("C08.del", f, "dangling-window-after-delete:" + dang[0], f.where(i),
                            "the block is freed and a path to the exit leaves `%s` pointing into it (setting it to the other window pointer "
                            "does not count): the buffer looks empty, but the next zero-length append stores its terminator through the stale "
                            "pointer - a write into freed memory" % dang[0], f.path_lines(dang[1]))
                elif path is None:
                    chk.ok("C08.del", f, "delete[] buffer then re-seat", f.where(i), "every path to the exit writes `buffer` and both window pointers")
                else:
                    chk.bad("C08.del", f, "dangling-buffer-after-delete", f.where(i),
                            "the block is freed and a path to the exit leaves `buffer` pointing to it (double free / use after free)",
                            f.path_lines(path))
        else:
            dels = [i for i in f.find(lambda n: n["k"] == "CXXDeleteExpr") if "this->buffer" in f.r(i)]
            if len(dels) == 1 and q.must_pass_from_entry(f, dels) is None:
                chk.ok("C08.del", f, "destructor frees the block exactly once", f.where(dels[0]), "single delete[] on every path")
            else:
                chk.bad("C08.del", f, "destructor-release", "%s:%s" % (f.file, f.line), "the destructor must delete[] `buffer` exactly once on every path")
        # ---------------------------------------------------------------- C08.swap
        if f.short == "swap" and len(f.params) == 1:
            o = f.params[0]["n"]
            for fld in ("buffer", "bufferStart", "bufferEnd", "_capacity"):
                mine = [w for w in q.field_writes(f, fld, "this")]
                theirs = [w for w in q.field_writes(f, fld, o)]
                ok1 = any(w.rhs is not None and q.xr(f, w.rhs, defs) == "%s.%s" % (o, fld) for w in mine)
                # the value stored into other.F must be this->F as it was before: a local initialised from it
                ok2 = False
                for w in theirs:
                    if w.rhs is None:
                        continue
                    r = f.nodes[f.strip(w.rhs)]
                    if r["k"] == "DeclRefExpr" and r["ref"]["dk"] == "local":
                        init = q.single_def(f, r["ref"]["id"], defs)
                        if init is not None and f.r(init) == "this->" + fld:
                            # the temporary must be taken before this->F is overwritten
                            dpos = f.node_pos(init)
                            if all(f.dominates_pos(dpos, m.pos) for m in mine):
                                ok2 = True
                for ok, d in ((ok1, "this->%s = %s.%s" % (fld, o, fld)), (ok2, "%s.%s = previous this->%s" % (o, fld, fld))):
                    if ok:
                        chk.ok("C08.swap", f, d, "%s:%s" % (f.file, f.line), "store with the expected source found")
                    else:
                        chk.bad("C08.swap", f, "swap-misses:" + d, "%s:%s" % (f.file, f.line), "swap does not perform " + d)

    rec = prog.records.get("Buffer")
    if rec is None:
        raise AnalysisBroken("record Buffer not found")
    sm = rec["special"]
    if sm["dtor"] == "user" and sm["copyctor"] == "user" and sm["copyassign"] == "user":
        chk.ok("C08.r3", "Buffer", "rule of three", "%s:%s" % (rec["file"], rec["line"]), str(sm), nontrivial=False)
    else:
        chk.bad("C08.r3", "Buffer", "rule-of-three", "%s:%s" % (rec["file"], rec["line"]),
                "Buffer owns a heap block but its special members are %s: an implicit copy aliases the block" % sm)

    lin_buffer.run(prog, chk, fs)
    c08_alias.run(prog, chk, fs)
    # the property's other anchor: the send backlog of server clients is a Buffer used as a byte queue - what write() queues must be
    # exactly what the socket did not take (the decision table of C13.l decides this clause for both properties)
    from . import c13
    c13.client_write_table(prog, chk, "C08.w")
    window_trims(prog, chk, "C08.t")
    source_window_only(prog, chk, "C08.s", fs)


def _branch_tag(f, w):
    """stable tag for a write site inside a function: the rendered right-hand side (not the line)"""
    if w.rhs is None:
        return w.op
    return q.no_casts(f.r(w.rhs))[:80]


def _flows_to_buffer(f, new_id):
    """does the value of this new-expression end up in this->buffer?"""
    x = new_id
    while True:
        p = f.up(x)
        if p is None:
            return False
        n = f.nodes[p]
        if n["k"] in ("CStyleCastExpr", "CXXStaticCastExpr", "CXXReinterpretCastExpr"):
            x = p
            continue
        if n["k"] == "BinaryOperator" and n["op"] == "=":
            if f.r(n["c"][0]) == "this->buffer":
                return True
            x = p
            continue
        if n["k"] == "DeclStmt":
            for d in n["decls"]:
                if d.get("init") is not None and new_id in f.desc(d["init"]):
                    for s in q.stores(f):
                        if f.r(s.lhs) == "this->buffer" and s.rhs is not None:
                            r = f.nodes[f.strip(s.rhs)]
                            if r["k"] == "DeclRefExpr" and r["ref"]["id"] == d["id"]:
                                return True
            return False
        return False


def window_trims(prog, chk, rid):
    """removeFront(k) / removeBack(k) as decision tables: for windows of 0, 1 and 4 bytes and k on both sides of the window's length, what
    is left is the reference queue's remainder - n - k bytes beginning k bytes further on (front) or at the old start (back); nothing
    when k >= n.  (The send backlog of a server client is drained with removeFront(sent).)"""
    chk.rule(rid, "FIN: Buffer::removeFront / removeBack evaluated over (window length, count): the remaining window has max(0, n - k) bytes "
                  "and, when not empty, starts at start + k (front) / start (back)", floor=2)
    S = 5000
    for name, front in (("removeFront", True), ("removeBack", False)):
        fs = [f for f in methods(prog) if f.short == name and f.blocks and len(f.params) == 1]
        if not fs:
            raise AnalysisBroken("Buffer::%s(size) not found" % name)
        f = fs[0]
        kn = f.params[0]["n"]
        bad = None
        n_ev = 0
        for owned in (1, 0):
            for n in (0, 1, 4):
                for k in (0, 1, 2, 3, 4, 5, 9):
                    val = {kn: k, "this->bufferStart": S, "this->bufferEnd": S + n, "this->buffer": (S - 8) if owned else 0, "&this->_capacity": 77}
                    seen, end, fv = fin.walk_vals(f, f.entry, val, limit=100)
                    n_ev += 1
                    a, b = fv.get("this->bufferStart"), fv.get("this->bufferEnd")
                    if end not in ("exit",) and isinstance(end, str):
                        bad = (n, k, "the outcome depends on something else (%s)" % end)
                        break
                    if not isinstance(a, int) or not isinstance(b, int):
                        bad = (n, k, "the resulting window is not determined")
                        break
                    left = max(0, n - k)
                    if b - a != left:
                        bad = (n, k, "%d byte(s) remain, the reference queue keeps %d" % (b - a, left))
                        break
                    if left and a != (S + k if front else S):
                        bad = (n, k, "the remaining window starts %+d bytes from the old start, required %+d" % (a - S, k if front else 0))
                        break
                if bad:
                    break
            if bad:
                break
        where = "%s:%s" % (f.file, f.line)
        if bad:
            chk.bad(rid, f, "window-trim-table", where,
                    "Buffer::%s(%d) on a window of %d byte(s): %s - pending bytes of a send backlog are dropped (or sent twice) when the socket "
                    "takes part of it" % (name, bad[1], bad[0], bad[2]), evals=n_ev)
        else:
            chk.ok(rid, f, "%s: remainder = max(0, n - k) at the right offset for %d (n, k) pairs" % (name, n_ev), where, "evaluation of the window arithmetic", evals=n_ev)


def source_window_only(prog, chk, rid, fs):
    """the bytes of a Buffer are [bufferStart, bufferEnd); `buffer` is where its allocation begins - after removeFront() (or a prepend
    that used the head room) the two differ, and for an attached Buffer `buffer` is null.  A member that is handed another Buffer as a
    source has to read that Buffer's window."""
    chk.rule(rid, "WHO: a Buffer member with a `const Buffer&` parameter reads that parameter's bytes through bufferStart / bufferEnd (or its "
                  "accessors), never through its allocation pointer `buffer`", floor=4)
    n = 0
    for f in fs:
        ps = [p for p in f.params if re.sub(r"\s+", " ", p["t"]) in ("const Buffer &",)]
        if not ps or not f.blocks:
            continue
        n += 1
        names = [p["n"] for p in ps]
        bad = [i for i, nd in enumerate(f.nodes) if nd["k"] == "MemberExpr" and nd.get("m") == "buffer" and nd["c"] and
               q.no_casts(f.r(nd["c"][0])) in names and f.node_pos(i) is not None]
        if bad:
            chk.bad(rid, f, "source-read-from-allocation-start:" + q.no_casts(f.r(bad[0])), f.where(bad[0]),
                    "`%s` is where the source's allocation begins, not where its data begins: once bytes were removed from the front of the "
                    "source (or it is attached: null) %s takes bytes the source no longer holds" % (q.no_casts(f.r(bad[0])), f.name), evals=len(bad))
        else:
            chk.ok(rid, f, "%s reads its source through the data window" % f.short, "%s:%s" % (f.file, f.line), "no read of %s.buffer" % names[0], evals=1)
    if n < 4:
        raise AnalysisBroken("C08.s: only %d Buffer members with a `const Buffer&` parameter found" % n)
