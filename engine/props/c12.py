"""C12 — signals reach exactly the connected slots, safely under re-entrancy."""
import re
from .. import q, fin
from .. import containers as C
from ..facts import AnalysisBroken
from . import wit

EXPLANATION = (
    "Structural rules on Callback.hpp / Callback.cpp: (a) a slot entry's receiver/object/slot are consulted only where its state was "
    "tested (a `disconnected` entry is logically absent); (b) physical removal of slot entries happens only when no emission is active "
    "(`activation == 0` edge, or in ~SignalActivation on the edge where the activation chain became empty), and marking an entry sets "
    "`dirty`; (c) connect/disconnect update the emitter side and the listener side together on every path; (d) all nine emit arities "
    "test `state == connected` before invoking, test `activation.invalidated` after every invocation before any further use of the "
    "iterator/activation, and agree with each other after arity normalisation; (e) the activation chain is pushed in the constructor, "
    "popped on the not-invalidated path of the destructor and invalidation is propagated on the other; ~Emitter invalidates the innermost "
    "activation before touching slots; (f) Emitter and Listener cannot be copied. Not decided: the invocation log against a model of "
    "live connections over all nested histories (needs the list contents).")


def F(prog, name, pred=None):
    c = [f for f in prog.functions.values() if f.name == name and (pred is None or pred(f))]
    if not c:
        raise AnalysisBroken("anchor function not found: " + name)
    return c


def state_atoms(f, pos):
    """dominating facts about a slot's state at pos: list of (text, truth/case value)"""
    out = []
    for a in fin.dominating_atoms(f, pos):
        if a[0] == "case":
            if re.search(r"(->|\.)state$", fin.key(f, a[1])):
                out.append(("case", a[2]))
        else:
            t = fin.key(f, a[0])
            if re.search(r"(->|\.)state (==|!=) ", t):
                out.append((t, a[1]))
    return out


def run(prog, chk):
    chk.extra["explanation"] = EXPLANATION
    chk.rule("C12.a", "DOM: every read of a slot entry's receiver / object / slot is dominated by a test of that entry's state", floor=12)
    chk.rule("C12.b", "DOM/PAIRF: slots.remove() only with no active emission; marking an entry (disconnected / connecting) sets dirty", floor=6)
    chk.rule("C12.c", "MPT: connect appends on both sides; disconnect marks/removes the emitter entry and removes the listener record", floor=4)
    chk.rule("C12.d", "MPT+SIB: every emit arity tests the state before invoking and `activation.invalidated` after invoking, before touching the iterator again; the nine arities agree", floor=10)
    chk.rule("C12.e", "MPT: activation chain push / pop / invalidation propagation; ~Emitter invalidates before touching slots", floor=5)
    emits = [f for f in prog.functions.values() if f.name == "Callback::Emitter::emit"]
    if len(emits) < 9:
        raise AnalysisBroken("only %d emit arities instantiated (witness unit)" % len(emits))
    cb = [f for f in prog.functions.values() if f.file.endswith("src/Callback.cpp")]
    _erase_rule(prog, chk)
    dirty_cleared_after_sweep(prog, chk, "C12.i")
    one_connection_per_disconnect(prog, chk, "C12.j")
    wrapper_slot_keys_agree(prog, chk, "C12.k")
    if len(cb) < 6:
        raise AnalysisBroken("Callback.cpp: only %d functions" % len(cb))

    # ------------------------------------------------------------------ C12.a
    for f in emits + cb:
        if f.name == "Callback::connect":
            continue
        for i, n in enumerate(f.nodes):
            if n["k"] == "MemberExpr" and n["m"] in ("receiver", "object", "slot") and n.get("mclsq") == "Callback::Emitter::Slot":
                p = f.node_pos(i)
                sa = state_atoms(f, p)
                if sa:
                    chk.ok("C12.a", f, "read of Slot::%s under a state test" % n["m"], f.where(i), str(sa[0])[:70], evals=len(sa))
                else:
                    chk.bad("C12.a", f, "slot-field-read-without-state-test:" + n["m"], f.where(i),
                            "`%s` is read from a slot entry whose state was not tested: entries marked `disconnected` during an emission stay in the "
                            "list until it ends and must be treated as absent (matching them resurrects / double-removes a connection)" % f.r(i)[:60])
    # ------------------------------------------------------------------ C12.g: which states count as live
    chk.rule("C12.g", "FIN: the state tests that guard a slot entry's fields admit exactly the live states: connected only where the slot is "
                      "invoked (emit), connected and connecting (everything but disconnected) where connections are matched or torn down", floor=12)
    svals = {}
    for f in cb + emits:
        for n in f.nodes:
            if n["k"] == "DeclRefExpr" and n["ref"].get("dk") == "enumconst" and n["ref"].get("q", "").startswith("Callback::Emitter::Slot::"):
                svals[n["ref"]["n"]] = n["ref"]["v"]
    if set(svals) >= {"connected", "connecting", "disconnected"}:
        names = {v: k for k, v in svals.items()}
        for f in emits + cb:
            if f.name == "Callback::connect" or f.name.endswith("~SignalActivation") or f.short == "sweep":
                continue
            want = {"connected"} if f in emits else {"connected", "connecting"}
            seen_sets = {}
            for i, n in enumerate(f.nodes):
                if not (n["k"] == "MemberExpr" and n["m"] in ("receiver", "object", "slot") and n.get("mclsq") == "Callback::Emitter::Slot"):
                    continue
                p = f.node_pos(i)
                if p is None:
                    continue
                atoms = [a for a in fin.dominating_atoms(f, p)]
                keys_ = set()
                for a in atoms:
                    x_ = a[1] if a[0] == "case" else a[0]
                    for y_ in f.desc(x_):
                        if f.nodes[y_]["k"] == "MemberExpr" and f.nodes[y_].get("m") == "state" and f.nodes[y_].get("mclsq") == "Callback::Emitter::Slot":
                            keys_.add(fin.key(f, y_))
                if not keys_:
                    continue
                live = set()
                for nm_, v_ in svals.items():
                    val = {k_: v_ for k_ in keys_}
                    ok_ = True
                    for a in atoms:
                        if a[0] == "case":
                            r_ = fin.eval_expr(f, a[1], val)
                            if r_ is not None and r_ != a[2]:
                                ok_ = False
                        else:
                            r_ = fin.eval_expr(f, a[0], val)
                            if r_ is not None and bool(r_) != a[1]:
                                ok_ = False
                    if ok_:
                        live.add(nm_)
                seen_sets.setdefault(frozenset(live), i)
            for live, i in seen_sets.items():
                if set(live) == want:
                    chk.ok("C12.g", f, "slot fields used for states %s" % sorted(live), f.where(i), "valuation of the dominating state tests", evals=3)
                else:
                    chk.bad("C12.g", f, "slot-liveness-set:" + "+".join(sorted(live)), f.where(i),
                            "here a slot entry is treated as present for the states %s, it must be %s: %s" % (
                                sorted(live), sorted(want),
                                "a slot connected during the running emission is skipped, its listener record outlives the emitter" if "connecting" in want - set(live)
                                else "an entry that is not (yet) connected is invoked / matched"))
    # ------------------------------------------------------------------ C12.b
    for f in cb:
        for c in q.calls(f):
            t = f.r(c)
            if not re.search(r"slots\.remove\(", t):
                continue
            idle, atoms = _idle_at(f, c)
            if idle:
                chk.ok("C12.b", f, "slots.remove() only when no emission is active", f.where(c), "dominated by the activation-is-null edge", evals=len(atoms))
            else:
                chk.bad("C12.b", f, "slot-removed-during-emission", f.where(c),
                        "`%s` unlinks a slot entry on a path where an emission of this signal may still be iterating the list (an outer "
                        "activation holds iterators into it): use after free / slots connected during the emission are promoted too early" % t[:50])
        # marking sets dirty
        for s in q.stores(f):
            lt = f.r(s.lhs)
            if re.search(r"(->|\.)state$", lt) and s.rhs is not None:
                v = fin.eval_expr(f, s.rhs, {})
                nm = q.no_casts(f.r(s.rhs))
                if "disconnected" in nm or "connecting" in nm:
                    if f.name.endswith("~SignalActivation"):
                        continue
                    dirty = [x.node for x in q.stores(f) if re.search(r"(->|\.)dirty$", f.r(x.lhs)) and fin.eval_expr(f, x.rhs, {}) == 1]
                    def by_valuation():
                        """the mark may be a selection (`state = busy ? connecting : connected; if(busy) dirty = true;`): follow the guards
                        for activation null / non-null (other branches both ways) and require dirty whenever a marking value is stored"""
                        keys_ = set()
                        for n_ in f.nodes:
                            if n_["k"] == "MemberExpr" and n_.get("m") == "activation":
                                keys_.add(fin.key(f, n_["i"]))
                        if not keys_:
                            return False
                        marks_ = {fin.eval_expr(f, x_, {}) for x_ in (y_["i"] for y_ in f.nodes if y_["k"] == "DeclRefExpr" and y_["ref"].get("dk") == "enumconst"
                                                                    and y_["ref"].get("n") in ("connecting", "disconnected"))}
                        for av in (0, 1):
                            for other in (0, 1):
                                seen_, end_, fv_ = fin.walk_vals(f, f.entry, {k_: av for k_ in keys_}, assume=lambda k_, o=other: o)
                                if s.node not in seen_:
                                    continue
                                stored = fin.eval_expr(f, s.rhs, dict(fv_, **{k_: av for k_ in keys_}))
                                if stored is None:
                                    return False
                                if stored in marks_ and not any(d_ in seen_ for d_ in dirty):
                                    return False
                        return True
                    if dirty and (C.paths_all_pass(f, f.node_pos(s.node), q.pos_of(f, dirty)) or by_valuation()):
                        chk.ok("C12.b", f, "marking `%s` sets dirty" % nm.split("::")[-1], f.where(s.node), "dirty = true on every path through the mark", evals=2)
                    else:
                        chk.bad("C12.b", f, "mark-without-dirty:" + nm.split("::")[-1], f.where(s.node),
                                "a slot is marked %s without `dirty = true`: the clean-up at the end of the outermost emission is skipped, the entry is "
                                "never removed / never promoted" % nm.split("::")[-1])
    # ------------------------------------------------------------------ C12.c
    f = F(prog, "Callback::connect", lambda f: f.file.endswith("Callback.cpp"))[0]
    apps = [c for c in q.calls(f) if re.search(r"\.append\(|->append\(", f.r(c))]
    slot_app = [c for c in apps if "slots.append" in f.r(c)]
    lst_app = [c for c in apps if c not in slot_app]
    where = "%s:%s" % (f.file, f.line)
    if slot_app and lst_app and q.must_pass_from_entry(f, slot_app) is None and q.must_pass_from_entry(f, lst_app) is None:
        chk.ok("C12.c", f, "connect records the connection on both sides", where, "both appends on every path", evals=2)
    else:
        chk.bad("C12.c", f, "connect-one-sided", where, "connect must append the slot to the emitter's list and the record to the listener's list on every path")
    sets = [s for s in q.stores(f) if re.search(r"\.state$", f.r(s.lhs))]
    vals = set(q.no_casts(f.r(s.rhs)).split("::")[-1] for s in sets)
    act = [s for s in sets if "connecting" in f.r(s.rhs)]
    ok = vals == {"connected", "connecting"} and all(any(a[0] != "case" and a[1] and re.search(r"\.activation$", fin.key(f, a[0])) for a in fin.dominating_atoms(f, f.node_pos(s.node))) for s in act)
    if not ok and sets:
        # decision table: the state stored for activation null / non-null, however the selection is written
        ev_ = {}
        for n_ in f.nodes:
            if n_["k"] == "DeclRefExpr" and n_["ref"].get("dk") == "enumconst" and n_["ref"].get("n") in ("connecting", "connected"):
                ev_[n_["ref"]["n"]] = n_["ref"].get("v")
        keys_ = set(fin.key(f, n_["i"]) for n_ in f.nodes if n_["k"] == "MemberExpr" and n_.get("m") == "activation")
        ok = bool(keys_) and len(ev_) == 2
        for av in (0, 1):
            for other in (0, 1):
                if not ok:
                    break
                seen_, end_, fv_ = fin.walk_vals(f, f.entry, {k_: av for k_ in keys_}, assume=lambda k_, o=other: o)
                st_ = [s_ for s_ in sets if s_.node in seen_]
                if not st_:
                    ok = False
                    break
                got = fin.eval_expr(f, st_[-1].rhs, dict(fv_, **{k_: av for k_ in keys_}))
                if got != (ev_["connecting"] if av else ev_["connected"]):
                    ok = False
    if ok:
        chk.ok("C12.c", f, "a slot connected during an emission starts as `connecting`", where, "state store dominated by the activation test", evals=2)
    else:
        chk.bad("C12.c", f, "connect-state-during-emission", where, "a slot connected while the signal is being emitted must start as `connecting` (it must not be invoked by the emission in progress), otherwise `connected`")
    f = F(prog, "Callback::disconnect", lambda f: f.file.endswith("Callback.cpp"))[0]
    where = "%s:%s" % (f.file, f.line)
    em = [c for c in q.calls(f) if "slots.remove(" in f.r(c)] + [s.node for s in q.stores(f) if re.search(r"->state$", f.r(s.lhs))]
    li = [c for c in q.calls(f) if re.search(r"signals\.remove\(", f.r(c))]
    if em and li:
        chk.ok("C12.c", f, "disconnect updates the emitter entry and the listener record", where, "both removals present", nontrivial=False)
    else:
        chk.bad("C12.c", f, "disconnect-one-sided", where, "disconnect must mark/remove the emitter's slot entry and remove the listener's record")
    for f in F(prog, "Callback::Listener::~Listener") + F(prog, "Callback::Emitter::~Emitter"):
        peer = [c for c in q.calls(f) if re.search(r"\.remove\(", f.r(c))] + [s.node for s in q.stores(f) if re.search(r"->state$", f.r(s.lhs))]
        if peer:
            chk.ok("C12.c", f, "destructor unlinks the peer side", "%s:%s" % (f.file, f.line), "%d unlink sites" % len(peer), nontrivial=False)
        else:
            chk.bad("C12.c", f, "destructor-leaves-peer-records", "%s:%s" % (f.file, f.line), "the destructor must remove/mark the peer side's records of its connections (the peer later calls into freed memory)")
    # ------------------------------------------------------------------ C12.f: search loops match the full identity
    chk.rule("C12.f", "KEY: every loop in connect's inverse operations (disconnect, ~Listener, ~Emitter) that removes or marks a connection "
                      "record matched it on every identity field of the record type (receiver and slot for an emitter entry; signal and slot "
                      "for a listener record)", floor=5)
    ident = {}
    for rn in ("Callback::Emitter::Slot", "Callback::Listener::Signal"):
        rec = prog.records.get(rn)
        if rec is None:
            raise AnalysisBroken("record %s not found" % rn)
        ident[rn] = [x["n"] for x in rec["fields"] if x["t"] in ("Callback::Listener *", "Callback::MemberFuncPtr")]
        if len(ident[rn]) != 2:
            raise AnalysisBroken("record %s: expected two identity fields, found %s" % (rn, ident[rn]))
    for f in F(prog, "Callback::disconnect", lambda f: f.file.endswith("Callback.cpp")) + F(prog, "Callback::Listener::~Listener") + F(prog, "Callback::Emitter::~Emitter"):
        sites = []
        for c in q.calls(f):
            n = f.nodes[c]
            m = re.match(r"^List<(Callback::Emitter::Slot|Callback::Listener::Signal)>::remove$", n.get("callee", ""))
            if m and q.call_args(f, c):
                sites.append((c, m.group(1), q.no_casts(f.r(q.call_args(f, c)[0]))))
        # reference locals that stand for the record an iterator points at (`Slot& slotData = *i;`)
        refs_of = {}
        for n_ in f.nodes:
            if n_["k"] == "DeclStmt":
                for d_ in n_["decls"]:
                    if (d_.get("t") or "").rstrip().endswith("&") and d_.get("init") is not None:
                        m_ = re.match(r"^\*(\w+)$", q.no_casts(f.r(d_["init"])))
                        ids_ = [f.nodes[x]["ref"].get("id") for x in [f.strip(d_["init"])] + list(f.desc(d_["init"])) if f.nodes[x]["k"] == "DeclRefExpr" and f.nodes[x]["ref"].get("dk") in ("local", "parm")]
                        if m_ and ids_:
                            refs_of[d_["n"]] = (m_.group(1), ids_[0])
        for st_ in q.stores(f):
            lt_ = q.no_casts(f.r(st_.lhs))
            m = re.match(r"^(\w+)\.operator->\(\)->state$", lt_)
            m2 = re.match(r"^(\w+)\.state$", lt_)
            if st_.rhs is not None and "disconnected" in f.r(st_.rhs):
                if m:
                    sites.append((st_.node, "Callback::Emitter::Slot", m.group(1)))
                elif m2 and m2.group(1) in refs_of:
                    sites.append((st_.node, "Callback::Emitter::Slot", refs_of[m2.group(1)][0]))
        for node, rn, it in sites:
            got = {}
            # the iterator variable meant at this site (names are reused by nested loops: take the declaration the site refers to)
            it_ids = set(f.nodes[x]["ref"].get("id") for x in f.desc(node) if f.nodes[x]["k"] == "DeclRefExpr" and f.nodes[x]["ref"]["n"] in [it] + list(refs_of))
            it_ids |= set(i_[1] for r_, i_ in refs_of.items() if any(f.nodes[x]["k"] == "DeclRefExpr" and f.nodes[x]["ref"]["n"] == r_ for x in f.desc(node)))
            names = [it] + [r_ for r_, i_ in refs_of.items() if i_[0] == it and i_[1] in it_ids]
            for a in fin.dominating_atoms(f, f.node_pos(node)):
                if a[0] == "case":
                    continue
                cn = fin._canon(f, a[0], a[1])      # `x != y` known false counts like `x == y` known true
                if cn[0] == "val" or cn[1] != "==":
                    continue
                for me, other in ((cn[0], cn[2]), (cn[2], cn[0])):
                    m = re.match(r"^(\w+)\.operator->\(\)->(\w+)$", me) or re.match(r"^(\w+)\.(\w+)$", me)
                    if m and m.group(1) in names and not any(re.search(r"\b%s\b" % re.escape(x), other) for x in names):
                        got[m.group(2)] = other
            missing = [x for x in ident[rn] if x not in got]
            if missing:
                chk.bad("C12.f", f, "record-matched-on-partial-key:" + rn.split("::")[-1] + ":" + ",".join(missing), f.where(node),
                        "`%s` unlinks a %s that was matched on {%s} only; `%s` is not compared, so with one slot connected to several signals "
                        "(or several listeners sharing a slot) the record of a different, still live connection is removed and the two sides disagree"
                        % (f.r(node)[:50], rn.split("::")[-1], ", ".join(sorted(got)) or "nothing", ", ".join(missing)), evals=len(ident[rn]))
            else:
                chk.ok("C12.f", f, "%s matched on %s" % (rn.split("::")[-1], "+".join(ident[rn])), f.where(node), str(got)[:80], evals=len(ident[rn]))
    # ------------------------------------------------------------------ C12.d
    shapes = {}
    for f in emits:
        where = "%s:%s" % (f.file, f.line)
        inv = [i for i, n in enumerate(f.nodes) if n["k"] == "CXXMemberCallExpr" and "->*" in f.r(n["c"][0])]
        if len(inv) != 1:
            chk.bad("C12.d", f, "emit-invocation-count", where, "emit must contain exactly one slot invocation, found %d" % len(inv))
            continue
        sa = state_atoms(f, f.node_pos(inv[0]))
        conn = any(re.search(r"state == .*connected", t) and v is True and "disconnected" not in t for t, v in sa if t != "case")
        tests = [b for b in f.blocks.values() if b.get("cond") is not None and fin.key(f, b["cond"]) == "activation.invalidated"]
        incs = [i for i, n in enumerate(f.nodes) if n["k"] == "CXXOperatorCallExpr" and n.get("oop") == "++"]
        uses = incs + [i for i, n in enumerate(f.nodes) if n["k"] == "MemberExpr" and n["m"] in ("end", "begin") and f.r(i).startswith("activation.")
                       and q.reaches(f, inv[0], i)]
        err = None
        if not conn:
            err = "the slot is invoked without `state == connected` having been tested for it"
        elif not tests:
            err = "activation.invalidated is never tested"
        else:
            tp = set((b["id"], len(b["el"])) for b in tests)
            for u in uses:
                if f.find_path(f.node_pos(inv[0]), {f.node_pos(u)}, avoid=tp) is not None:
                    err = "after the slot returned, `%s` is used without first testing activation.invalidated (the emitter may have been destroyed by the slot)" % f.r(u)[:30]
            for b in tests:
                t_succ = b["succ"][0]
                if t_succ is None or f.find_path((t_succ, 0), {f.node_pos(x) for x in incs}, after_src=False) is not None:
                    err = "the invalidated branch does not leave the loop"
        if err:
            chk.bad("C12.d", f, "emit-loop-shape:%d-args" % (len(f.params) - 1), where, "emit (%d arguments): %s" % (len(f.params) - 1, err))
        else:
            chk.ok("C12.d", f, "emit/%d: state test -> invoke -> invalidated test -> ++i" % (len(f.params) - 1), where, "dominating atoms + path search", evals=4)
        # normalised shape for the sibling comparison
        sh = []
        # const copies of an iterator (`const Iterator last = activation.end;`) read as what they were copied from
        copies = {}
        for n_ in f.nodes:
            if n_["k"] == "DeclStmt":
                for d_ in n_["decls"]:
                    if (d_.get("t") or "").startswith("const ") and d_.get("init") is not None:
                        x_ = f.nodes[d_["init"]]
                        while x_["k"] in ("CXXConstructExpr", "ImplicitCastExpr", "ExprWithCleanups", "MaterializeTemporaryExpr") and len([c_ for c_ in x_["c"] if c_ >= 0]) == 1:
                            x_ = f.nodes[[c_ for c_ in x_["c"] if c_ >= 0][0]]
                        if x_["k"] in ("MemberExpr", "DeclRefExpr"):
                            copies[d_["n"]] = q.no_casts(f.r(x_["i"]))
        for b in sorted(f.blocks, reverse=True):
            blk = f.blocks[b]
            if blk.get("cond") is not None:
                t_ = q.no_casts(q.xr(f, blk["cond"]))
                for nm_, src_ in copies.items():
                    t_ = re.sub(r"(?<![\w>.])%s(?![\w])" % re.escape(nm_), src_, t_)
                sh.append("if " + re.sub(r"MemberFuncPtr\d", "MemberFuncPtrN", t_))
        sh.append("calls=%d" % len(inv))
        shapes[f.sig] = " | ".join(sh)
    if len(set(shapes.values())) == 1:
        chk.ok("C12.d", "emit", "the %d emit arities have the same control skeleton" % len(shapes), "", list(shapes.values())[0][:120], evals=len(shapes))
    else:
        from collections import Counter
        common = Counter(shapes.values()).most_common(1)[0][0]
        for sig, sh in shapes.items():
            if sh != common:
                chk.bad("C12.d", sig, "emit-arity-differs-from-siblings", "", "this emit overload's control skeleton `%s` differs from its siblings' `%s`" % (sh[:100], common[:100]))
    # ------------------------------------------------------------------ C12.e
    f = F(prog, "Callback::Emitter::SignalActivation::SignalActivation")[0]
    where = "%s:%s" % (f.file, f.line)
    st = C.nstores(f)
    # designations of the signal's chain head: through `data`, or through whatever object `data` is made to point at here
    heads_ = {"this->data->activation"}
    for s_, l_, r_ in st:
        if l_ == "this->data" and r_ not in ("0", "nullptr"):
            heads_.add(r_[1:] + ".activation" if r_.startswith("&") else r_ + "->activation")
    push = [s.node for s, l, r in st if l in heads_ and r == "this"]
    save = [s.node for s, l, r in st if l == "this->next" and r in heads_]
    frz = [s.node for s in q.stores(f) if f.r(s.lhs) in ("this->begin", "this->end")]
    # every activation joins the chain - the innermost one is what ~Emitter invalidates - so no path from the save may skip the push
    skipped = [a for a in save if f.node_pos(a) is not None and f.find_path(f.node_pos(a), {f.exit_pos()}, avoid=q.pos_of(f, push)) is not None]
    if push and save and skipped:
        chk.bad("C12.e", f, "activation-push-conditional", f.where(skipped[0]),
                "after saving the previous head in `next` a path reaches the end of the constructor without `data->activation = this`: a nested "
                "emission is then not on the chain, ~Emitter invalidates only the outer activation, and the nested emission keeps walking the "
                "destroyed slot list (slots called after their emitter is gone)", evals=3)
    elif push and save and all(q.reaches(f, a, b) for a in save for b in push) and len(frz) >= 2:
        chk.ok("C12.e", f, "activation pushed on the signal's chain, previous head saved, range frozen", where, "stores in order, push on every path from the save", evals=3)
    else:
        chk.bad("C12.e", f, "activation-push", where, "the activation constructor must save the previous head in `next`, push itself on data->activation and freeze begin/end")
    inv0 = [x for x in f.d.get("inits", []) if x.get("field") == "invalidated"]
    if inv0 and fin.eval_expr(f, inv0[0]["e"], {}) == 0:
        chk.ok("C12.e", f, "activation starts not invalidated", where, "initialiser", nontrivial=False)
    else:
        chk.bad("C12.e", f, "activation-invalidated-init", where, "SignalActivation must start with invalidated = false")
    f = F(prog, "Callback::Emitter::SignalActivation::~SignalActivation")[0]
    where = "%s:%s" % (f.file, f.line)
    pops = [s for s in q.stores(f) if f.r(s.lhs) == "this->data->activation" and f.r(s.rhs) == "this->next"]
    prop = [s for s in q.stores(f) if f.r(s.lhs) == "this->next->invalidated" and fin.eval_expr(f, s.rhs, {}) == 1]
    okp = bool(pops) and all(any(a[0] != "case" and fin.key(f, a[0]) == "this->invalidated" and not a[1] for a in fin.dominating_atoms(f, f.node_pos(s.node))) for s in pops)
    okq = bool(prop) and all(any(a[0] != "case" and fin.key(f, a[0]) == "this->invalidated" and a[1] for a in fin.dominating_atoms(f, f.node_pos(s.node))) for s in prop)
    if okp and okq:
        chk.ok("C12.e", f, "pop on the live path, propagate invalidation otherwise", where, "dominating atoms on `invalidated`", evals=4)
    else:
        chk.bad("C12.e", f, "activation-pop-or-propagate", where, "~SignalActivation must pop itself (data->activation = next) only when not invalidated and otherwise mark `next` invalidated (data is gone)")
    # touching data only when not invalidated
    for i, n in enumerate(f.nodes):
        if n["k"] == "MemberExpr" and n["m"] == "data" and f.r(i) == "this->data":
            atoms = fin.dominating_atoms(f, f.node_pos(i))
            if not any(a[0] != "case" and fin.key(f, a[0]) == "this->invalidated" and not a[1] for a in atoms):
                chk.bad("C12.e", f, "data-used-after-invalidation", f.where(i), "~SignalActivation dereferences `data` on a path where the emitter (and its signal data) may already be destroyed")
                break
    else:
        chk.ok("C12.e", f, "`data` is only used when not invalidated", where, "dominating atoms", evals=3)
    f = F(prog, "Callback::Emitter::~Emitter")[0]
    inval = [s.node for s in q.stores(f) if f.r(s.lhs).endswith("activation->invalidated") and fin.eval_expr(f, s.rhs, {}) == 1]
    touch = [c for c in q.calls(f) if "slots.begin()" in f.r(c)]
    if inval and touch:
        # per signal (one iteration of the outer walk): the activation test is made, and its non-null edge sets `invalidated` before the
        # iteration ends.  The order relative to the slot unlinking does not matter: no user code runs inside the destructor.
        guard = [b for b in f.blocks.values() if b.get("cond") is not None and len(b["succ"]) == 2 and
                 (fin.null_test(f, b["cond"]) or ("", 0))[0].endswith(".activation")]
        lb = C.loop_blocks(f, touch[0]) or set()
        heads = [x for x in lb if any(p_ not in lb for p_ in f.preds.get(x, []))]
        okg = bool(guard) and bool(heads)
        for g in guard:
            nz = g["succ"][1 - fin.null_test(f, g["cond"])[1]]
            if nz is None or f.find_path((nz, 0), {f.exit_pos()} | {(h, 0) for h in heads}, avoid=q.pos_of(f, inval), after_src=False) is not None:
                okg = False
        if okg and f.find_path((heads[0], 0), {(heads[0], 0)}, avoid={(g["id"], len(g["el"])) for g in guard}) is not None:
            okg = False
        if okg:
            chk.ok("C12.e", f, "~Emitter invalidates the active emission of every signal", "%s:%s" % (f.file, f.line), "MPT per iteration of the signal walk", evals=2)
        else:
            chk.bad("C12.e", f, "emitter-destructor-invalidation", "%s:%s" % (f.file, f.line), "~Emitter must set activation->invalidated for every signal that has an active emission (an iteration of the signal walk can end without it)")
    else:
        chk.bad("C12.e", f, "emitter-destructor-invalidation", "%s:%s" % (f.file, f.line), "~Emitter does not invalidate active emissions (an emit() in progress continues on a destroyed emitter)")
    wit.not_copyable(prog, chk, "C12.f", ["Callback::Emitter", "Callback::Listener"])


def _erase_rule(prog, chk):
    fs = [f for f in prog.functions.values() if f.file.endswith("Callback.cpp") or f.file.endswith("Callback.hpp")]
    C.erase_then_step(prog, chk, "C12.h", fs)


def _idle_at(f, c):
    """is node c evaluated only while no emission of the signal is active (the activation chain head is known null)?"""
    atoms = fin.dominating_atoms(f, f.node_pos(c))
    idle = False
    for a in atoms:
        if a[0] == "case":
            continue
        k = fin.key(f, a[0])
        if re.search(r"(\.|->)activation$", k) and not a[1]:
            idle = True
        nt0 = fin.null_test(f, a[0])       # `activation == 0` true, `activation != 0` false (e.g. behind a named bool)
        if nt0 is not None and re.search(r"(\.|->)activation$", nt0[0]) and (nt0[1] == 0) == bool(a[1]):
            idle = True
        # ~SignalActivation: `!(data->activation = next)` true, i.e. the assigned value is null
        if re.search(r"->activation = ", k) and not a[1] and f.nodes[f.strip(a[0])]["k"] == "BinaryOperator":
            idle = True
        if re.match(r"^this->data->activation$", k) and not a[1]:
            idle = True
    if not idle:
        # `data->activation = next; if(next ...) return;`: the value just stored into activation is what the dominating test found null
        for s_ in q.stores(f):
            if s_.rhs is None or s_.op != "=" or not re.search(r"(\.|->)activation$", q.no_casts(f.r(s_.lhs))):
                continue
            if not f.dominates_pos(f.node_pos(s_.node), f.node_pos(c)) and not fin.always_before(f, f.node_pos(c), [s_.node]):
                continue
            kr = fin.key(f, s_.rhs)
            def says_null(a):
                nt = fin.null_test(f, a[0])      # `next` false, `next == 0` true, `next != 0` false ...
                return nt is not None and nt[0] == kr and (nt[1] == 0) == bool(a[1])
            if any(a[0] != "case" and says_null(a) for a in atoms) and \
               not any(o.node != s_.node and re.search(r"(\.|->)activation$", q.no_casts(f.r(o.lhs))) and q.reaches(f, s_.node, o.node) and q.reaches(f, o.node, c) for o in q.stores(f)):
                idle = True
    return idle, atoms


def dirty_cleared_after_sweep(prog, chk, rid):
    """`dirty` says that marked entries wait for the sweep that runs when the outermost emission ends: clearing it anywhere else
    (e.g. when a nested emission starts) cancels the sweep - entries connected during the emission are never promoted"""
    chk.rule(rid, "DOM: `dirty = false` is stored only where no emission is active any more (the activation chain head is known null), i.e. "
                  "by the sweep itself", floor=1)
    n = 0
    for f in [g for g in prog.functions.values() if g.file.endswith("src/Callback.cpp") and g.blocks]:
        for st_ in q.stores(f):
            if not re.search(r"(->|\.)dirty$", q.no_casts(f.r(st_.lhs))) or st_.rhs is None or fin.eval_expr(f, st_.rhs, {}) != 0:
                continue
            n += 1
            idle, atoms = _idle_at(f, st_.node)
            if idle:
                chk.ok(rid, f, "dirty cleared with no emission active", f.where(st_.node), "dominated by the activation-is-null edge", evals=len(atoms) + 1)
            else:
                chk.bad(rid, f, "dirty-cleared-during-emission", f.where(st_.node),
                        "`%s` runs while an emission of the signal may be active (nothing says the activation chain is empty): the sweep that the "
                        "flag announces is skipped when the outermost emission ends, entries marked `connecting` are never promoted and "
                        "`disconnected` ones never removed" % f.r(st_.node), evals=len(atoms) + 1)
    if not n:
        raise AnalysisBroken("no store `dirty = false` found in Callback.cpp")


def one_connection_per_disconnect(prog, chk, rid):
    """A connection is one entry in the emitter's slot list and one record in the listener's list.  disconnect() takes the pair apart:
    whatever it does to a matching entry (unlink it, or mark it while an emission runs), it does to ONE entry on either side - the same
    pair may be connected several times, and the other connections stay."""
    chk.rule(rid, "CNT: in Callback::disconnect every action on a matching entry (unlinking it or marking it disconnected) leaves the search "
                  "loop: one call takes exactly one entry out on the emitter side and one record on the listener side", floor=2)
    fs = [g for g in prog.functions.values() if g.name == "Callback::disconnect" and g.blocks and g.file.endswith("src/Callback.cpp")]
    if not fs:
        raise AnalysisBroken("Callback::disconnect not found")
    f = fs[0]
    def in_loop_stmt(x):
        p_ = f.up(x)
        while p_ is not None:
            if f.nodes[p_]["k"] in ("ForStmt", "WhileStmt", "DoStmt", "CXXForRangeStmt"):
                return True
            p_ = f.up(p_)
        return False
    acts = []
    for c in q.calls(f):
        if (f.nodes[c].get("callee") or "").endswith("::remove") and f.node_pos(c) is not None and in_loop_stmt(c):
            acts.append((c, "unlinks `%s`" % q.no_casts(f.r(c))[:40]))
    for st_ in q.stores(f):
        if re.search(r"(->|\.)state$", q.no_casts(f.r(st_.lhs))) and st_.rhs is not None and "disconnected" in f.r(st_.rhs) and in_loop_stmt(st_.node):
            acts.append((st_.node, "marks `%s` disconnected" % q.no_casts(f.r(st_.lhs))[:40]))
    if len(acts) < 2:
        raise AnalysisBroken("Callback::disconnect: %d actions on matching entries found, at least 2 expected" % len(acts))
    for node, what in acts:
        pos = f.node_pos(node)
        again = f.find_path(pos, {pos})       # can this action run a second time within one call?
        if again is None:
            chk.ok(rid, f, "the loop is left after it %s" % what, f.where(node), "no path from the action back to itself", evals=2)
        else:
            chk.bad(rid, f, "disconnect-continues-after-match", f.where(node),
                    "after it %s the search goes on (lines %s) and treats further matching entries the same way, while the other side gives up "
                    "exactly one record: a pair connected twice loses both connections on one side and one on the other - the remaining "
                    "connection is never invoked again" % (what, f.path_lines(again)[:8]), f.path_lines(again), evals=2)


def wrapper_slot_keys_agree(prog, chk, rid):
    """connect<> stores the slot under a member-pointer value, disconnect<> looks it up by one: both wrapper families have to form that
    value from the same type - the class that declares the slot.  Converted to the type of the object handed in, a slot of a
    non-first base carries a this-adjustment the other side's key lacks: disconnect finds nothing and the slot stays connected."""
    chk.rule(rid, "SIB/TYPE: for each instantiation pair Callback::connect<X,Y,V,W,..> / disconnect<X,Y,V,W,..> (W != Y included: a witness "
                  "listener whose slot class is a non-first base) the slot argument handed to the non-template connect/disconnect is formed from "
                  "the same member-pointer type", floor=2)
    from .. import q as _q
    def slot_type(f, callee):
        for c in _q.calls(f):
            if (f.nodes[c].get("callee") or "") == callee and f.nodes[c].get("csig") != f.sig:
                args = _q.call_args(f, c)
                if args:
                    x = f.strip(args[-1])
                    xn = f.nodes[x]
                    if xn["k"] == "DeclRefExpr" and xn["ref"].get("dk") == "local":      # `const MemberFuncPtr slotKey(slot);`
                        ini = _q.single_def(f, xn["ref"]["id"], _q.local_defs(f))
                        if ini is not None:
                            x = f.strip(ini)
                    for y in [x] + list(f.desc(x)):
                        t = f.nodes[y].get("t") or ""
                        if "::*)" in t:
                            return t, c
        return None, None
    fam = {}
    for f in prog.functions.values():
        if f.name in ("Callback::connect", "Callback::disconnect") and f.file.endswith("Callback.hpp") and f.blocks:
            m = re.search(r"<(.*)>\(", f.sig)
            key = m.group(1) if m else f.sig
            fam.setdefault(key, {})[f.name.split("::")[-1]] = f
    pairs = [(k, v) for k, v in sorted(fam.items()) if "connect" in v and "disconnect" in v]
    if len(pairs) < 2 or not any(len(set(k.split(", ")[:4])) > 2 and k.split(", ")[1] != k.split(", ")[3] for k, _v in pairs):
        raise AnalysisBroken("Callback::connect<>/disconnect<> wrapper pairs (with a listener whose slot class is a non-first base) are not instantiated")
    for k, v in pairs:
        tc, cc = slot_type(v["connect"], "Callback::connect")
        td, cd = slot_type(v["disconnect"], "Callback::disconnect")
        f = v["connect"]
        if tc is None or td is None:
            raise AnalysisBroken("Callback wrapper <%s>: the forwarding call was not found" % k[:60])
        if tc == td:
            chk.ok(rid, f, "connect<%s> and disconnect<> key the slot by `%s`" % (k[:40], tc[:40]), f.where(cc), "member-pointer type of the forwarded slot", evals=2)
        else:
            chk.bad(rid, f, "wrapper-slot-key-types-differ", f.where(cc),
                    "connect<> forwards the slot as `%s`, disconnect<> looks it up as `%s`: for a slot declared in a non-first base the two "
                    "member-pointer values differ (this-adjustment), disconnect removes nothing and the slot keeps being called" % (tc[:50], td[:50]), evals=2)
