"""Finite-valuation helpers: evaluate guard expressions of the AST under small abstract valuations
and collect the branch facts that dominate a CFG position."""
from . import q


def key(f, i):
    return q.no_casts(f.r(f.strip(i)))


def eval_expr(f, i, val):
    """value of expression node i under valuation `val` (text -> int); None when not determined"""
    i = f.strip(i)
    n = f.nodes[i]
    k = n["k"]
    c = n["c"]
    t = key(f, i)
    if t in val and k not in ("CStyleCastExpr", "CXXStaticCastExpr", "CXXReinterpretCastExpr", "CXXFunctionalCastExpr"):
        return val[t]
    if "cv" in n:
        return n["cv"]
    if k in ("MemberExpr", "ArraySubscriptExpr") and val:
        # the same object designated through an alias local (`Data* block = data; block->type`)
        t2 = q.no_casts(q.xr(f, i))
        if t2 != t and t2 in val:
            return val[t2]
    if k in ("IntegerLiteral", "CharacterLiteral", "CXXBoolLiteralExpr"):
        return n["v"]
    if k in ("CXXNullPtrLiteralExpr", "GNUNullExpr"):
        return 0
    if k == "DeclRefExpr" and n["ref"].get("dk") == "enumconst":
        return n["ref"].get("v")
    if k == "DeclRefExpr" and n["ref"].get("dk") == "local":
        # a local defined exactly once (a snapshot such as `const usize ref = data->ref;`) stands for its initialiser
        defs = getattr(f, "_defs_cache", None)
        if defs is None:
            defs = f._defs_cache = q.local_defs(f)
        init = q.single_def(f, n["ref"]["id"], defs)
        if init is not None and init != i:
            return eval_expr(f, init, val)
        return None
    if k in ("CStyleCastExpr", "CXXStaticCastExpr", "CXXReinterpretCastExpr", "CXXFunctionalCastExpr", "CXXConstCastExpr") and c:
        v = eval_expr(f, c[0], val)
        if v is not None and isinstance(v, int) and v < 0:
            ty = n.get("t", "")
            bits = {"unsigned long": 64, "unsigned long long": 64, "unsigned int": 32, "unsigned short": 16, "unsigned char": 8}.get(ty)
            if bits:
                v = v % (1 << bits)
        return v
    if k == "UnaryOperator":
        a = eval_expr(f, c[0], val)
        if a is None:
            return None
        if n["op"] == "!":
            return int(not a)
        if n["op"] == "-":
            return -a
        if n["op"] == "~":
            return ~a
        if n["op"] == "+":
            return a
        return None
    if k == "BinaryOperator":
        op = n["op"]
        a = eval_expr(f, c[0], val)
        if op == "&&":
            if a is not None and not a:
                return 0
            b = eval_expr(f, c[1], val)
            if b is not None and not b:
                return 0
            if a is None or b is None:
                return None
            return 1
        if op == "||":
            if a is not None and a:
                return 1
            b = eval_expr(f, c[1], val)
            if b is not None and b:
                return 1
            if a is None or b is None:
                return None
            return 0
        if op in ("=", ","):
            return eval_expr(f, c[1], val)      # (`a, b` has the value of b)
        b = eval_expr(f, c[1], val)
        if a is None or b is None:
            return None
        try:
            return {
                "==": lambda: int(a == b), "!=": lambda: int(a != b), "<": lambda: int(a < b), "<=": lambda: int(a <= b),
                ">": lambda: int(a > b), ">=": lambda: int(a >= b), "+": lambda: a + b, "-": lambda: a - b, "*": lambda: a * b,
                "&": lambda: a & b, "|": lambda: a | b, "^": lambda: a ^ b, "<<": lambda: a << b, ">>": lambda: a >> b,
                "/": lambda: (a // b if b else None), "%": lambda: (a % b if b else None),
            }[op]()
        except KeyError:
            return None
    if k == "ConditionalOperator":
        a = eval_expr(f, c[0], val)
        if a is None:
            x, y = eval_expr(f, c[1], val), eval_expr(f, c[2], val)
            return x if x == y else None
        return eval_expr(f, c[1] if a else c[2], val)
    return None


def _dominating_atoms_basic(f, pos):
    """[(atom node id, truth)] of every two-way branch edge that dominates `pos`, plus (switch cond, case value)
    pairs as ('case', cond node, value)"""
    out = []
    for b in f.blocks.values():
        c = b.get("cond")
        if c is None:
            continue
        if b.get("tk") == "SwitchStmt":
            for s in b["succ"]:
                if s is None:
                    continue
                lab = f.blocks[s].get("label")
                if lab is not None and f.nodes[lab]["k"] == "CaseStmt" and f.edge_dominates((b["id"], s), pos):
                    out.append(("case", c, f.nodes[lab].get("v")))
            continue
        if len(b["succ"]) != 2:
            continue
        for k in (0, 1):
            s = b["succ"][k]
            if s is None or b["succ"][0] == b["succ"][1]:
                continue
            if f.edge_dominates((b["id"], s), pos):
                for a, t in q.cond_atoms(f, c, k == 0):
                    out.append((a, t))
    return out


def _canon(f, node, truth):
    """canonical form of an atom for contradiction tests"""
    n = f.nodes[f.strip(node)]
    cmp_ = None
    if n["k"] == "BinaryOperator" and len(n["c"]) == 2 and n.get("op") in ("<", "<=", ">", ">=", "==", "!="):
        cmp_ = (n["c"][0], n["c"][1], n["op"])
    elif n["k"] == "CXXOperatorCallExpr" and len(n["c"]) == 3 and n.get("oop") in ("<", "<=", ">", ">=", "==", "!="):
        cmp_ = (n["c"][1], n["c"][2], n["oop"])      # overloaded comparison (iterators, strings)
    if cmp_ is not None:
        l, r, op = key(f, cmp_[0]), key(f, cmp_[1]), cmp_[2]
        if not truth:
            op = {"<": ">=", "<=": ">", ">": "<=", ">=": "<", "==": "!=", "!=": "=="}[op]
        if op == ">":
            l, r, op = r, l, "<"
        elif op == ">=":
            l, r, op = r, l, "<="
        if op in ("==", "!=") and r < l:
            l, r = r, l
        return (l, op, r)
    if n["k"] == "UnaryOperator" and n.get("op") == "!" and n["c"]:
        return _canon(f, n["c"][0], not truth)
    return ("val", key(f, node), bool(truth))


def null_test(f, cond):
    """(key, successor index taken when the tested value is zero/null) for conditions of the forms
    `p`, `!p`, `p != 0`, `p == 0`, `0 != p` (casts ignored); None otherwise"""
    if cond is None:
        return None
    c = _canon(f, cond, True)
    if c[0] == "val":
        return (c[1], 1 if c[2] else 0)
    l, op, r = c
    if op in ("==", "!=") and (l in ("0", "nullptr", "NULL") or r in ("0", "nullptr", "NULL")):
        k = r if l in ("0", "nullptr", "NULL") else l
        return (k, 0 if op == "==" else 1)
    return None


def nonzero_operand(f, node, truth):
    """the expression node that the atom (node, truth) says is non-zero: `x` true, `!x` false, `x != 0` true, `x == 0` false; else None"""
    node = f.strip(node)
    n = f.nodes[node]
    for _ in range(4):
        if n["k"] == "UnaryOperator" and n.get("op") == "!" and n["c"]:
            node, truth = f.strip(n["c"][0]), not truth
            n = f.nodes[node]
            continue
        break
    if n["k"] == "BinaryOperator" and n.get("op") in ("==", "!=") and len(n["c"]) == 2:
        z = [q.is_zero(f, c_) for c_ in n["c"]]
        if z[0] != z[1]:
            other = f.strip(n["c"][0] if z[1] else n["c"][1])
            return other if (n["op"] == "!=") == bool(truth) else None
        return None
    return node if truth else None


def _contradict(x, y):
    if x[0] == "val" and y[0] == "val":
        return x[1] == y[1] and x[2] != y[2]
    if x[0] == "val" or y[0] == "val":
        # `p` false vs `p != 0` ...: (l,'!=','0') contradicts ('val', l, False)
        v, rel = (x, y) if x[0] == "val" else (y, x)
        if rel[1] in ("==", "!=") and "0" in (rel[0], rel[2]) and v[1] in (rel[0], rel[2]):
            return (rel[1] == "!=") != v[2]
        return False
    if x[0] == y[0] and x[2] == y[2]:
        return {x[1], y[1]} == {"==", "!="} or {x[1], y[1]} == {"==", "<"}
    if x[0] == y[2] and x[2] == y[0]:
        return (x[1], y[1]) in (("<", "<="), ("<=", "<"), ("<", "<"), ("<", "=="), ("==", "<"))
    return False


def dominating_atoms(f, pos, assume=()):
    """atoms of the dominating branch edges, plus what follows from them at joins: when control can enter a dominating join block
    over several edges and the later tests rule out all but one of them, the atoms of that remaining edge hold as well
    (`while(i != end && !match(i)) ++i; if(i == end) return; ...` - here match(i) holds)."""
    if pos is None:
        return []       # a node that is not evaluated in this function (e.g. an argument bound to a reference of an inlined helper)
    cache = getattr(f, "_atoms_cache", None)
    if cache is None:
        cache = f._atoms_cache = {}
    ck_ = (pos, tuple((f.strip(a_), bool(t_)) for a_, t_ in assume))
    if ck_ in cache:
        return cache[ck_]
    base = _dominating_atoms_basic(f, pos)
    out = list(base)
    for a_, t_ in assume:        # facts the caller knows at this position (e.g. the selected arm of a conditional expression evaluated here)
        for x_ in q.cond_atoms(f, a_, bool(t_)):
            if x_ not in out:
                out.append(x_)
    base = list(out)
    known = [_canon(f, a[0], a[1]) for a in base if a[0] != "case"]
    for J, alts in _join_alternatives(f, pos):
        alive = [al for al in alts if not any(_contradict(_canon(f, n_, t_), k_) for (n_, t_) in al for k_ in known)]
        if len(alive) == 1 and len(alts) > 1:
            for (n_, t_) in alive[0]:
                if (n_, t_) not in out:
                    out.append((n_, t_))
    # what every edge into a dominating join has just established holds behind the join as well
    # (`if(!b.isEmpty()) { ...; if(!b.isEmpty()) continue; } <here b is empty>`)
    for J, alts in _join_alternatives(f, pos):
        if len(alts) < 2 or any(al.edge_n == 0 for al in alts):
            continue
        first = [(n_, t_, _canon(f, n_, t_)) for (n_, t_) in alts[0][:alts[0].edge_n]]
        for n_, t_, cn_ in first:
            if all(any(_canon(f, m_, u_) == cn_ for (m_, u_) in al[:al.edge_n]) for al in alts[1:]) and (n_, t_) not in out:
                out.append((n_, t_))
    _expand_named_tests(f, out, pos)
    # named tests may decide a join the plain atoms could not
    known2 = [_canon(f, a[0], a[1]) for a in out if a[0] != "case"]
    if len(known2) > len(known):
        for J, alts in _join_alternatives(f, pos):
            alive = [al for al in alts if not any(_contradict(_canon(f, n_, t_), k_) for (n_, t_) in al for k_ in known2)]
            if len(alive) == 1 and len(alts) > 1:
                for (n_, t_) in alive[0]:
                    if (n_, t_) not in out:
                        out.append((n_, t_))
        _expand_named_tests(f, out, pos)
    cache[ck_] = out
    return out


def _join_alternatives(f, pos):
    """[(join block, [atoms of each incoming edge])] for the join blocks that dominate pos"""
    res = []
    for J, blk in f.blocks.items():
        preds = f.preds.get(J, [])
        if len(preds) < 2 or not f.dominates_pos((J, 0), pos) or (J, 0) == pos:
            continue
        at_J = set((a[0], a[1]) for a in _dominating_atoms_basic(f, (J, 0)) if a[0] != "case")
        alts = []
        for p_ in preds:
            pb = f.blocks[p_]
            edge = []
            c_ = pb.get("cond")
            if c_ is not None and len(pb["succ"]) == 2 and pb.get("tk") != "SwitchStmt" and pb["succ"][0] != pb["succ"][1]:
                edge = list(q.cond_atoms(f, c_, pb["succ"][0] == J))
            own = [(a[0], a[1]) for a in _dominating_atoms_basic(f, (p_, len(pb["el"]))) if a[0] != "case" and (a[0], a[1]) not in at_J]
            al_ = _Alt(edge + own)
            al_.edge_n = len(edge)
            alts.append(al_)
        res.append((J, alts))
    return res


class _Alt(list):
    """atoms of one incoming edge of a join; the first `edge_n` are those of the edge's own condition"""
    edge_n = 0


def _stable_init(f, local_id, pos):
    """initialiser of a local that is defined once and whose operands are not stored between that definition and `pos`
    (`const bool failed = result < 0;` names the test for as long as `result` keeps its value)"""
    defs = getattr(f, "_defs_cache", None)
    if defs is None:
        defs = f._defs_cache = q.local_defs(f)
    init = q.single_def(f, local_id, defs)
    if init is None:
        return None
    dpos = f.node_pos(init)
    if dpos is None:
        return None
    ops = set()
    for x in f.desc(init):
        nx = f.nodes[x]
        if nx["k"] == "DeclRefExpr" and nx["ref"].get("dk") in ("local", "parm"):
            ops.add(("v", nx["ref"]["id"]))
        elif nx["k"] == "MemberExpr":
            ops.add(("m", nx.get("m")))
        elif nx["k"] == "CXXOperatorCallExpr" and nx.get("oop") in PURE_OPS:
            continue        # iterator dereference / comparison: reads only
        elif nx["k"] in ("CallExpr", "CXXMemberCallExpr", "CXXOperatorCallExpr"):
            return None
    for st in q.stores(f):
        l = f.nodes[st.lhs]
        hit = (l["k"] == "DeclRefExpr" and ("v", l["ref"].get("id")) in ops) or (l["k"] == "MemberExpr" and ("m", l.get("m")) in ops)
        if not hit:
            continue
        sp = f.node_pos(st.node)
        if sp is None or (sp != pos and f.find_path(dpos, {sp}) is not None and f.find_path(sp, {pos}, avoid={dpos}) is not None):
            return None        # (a store at pos itself has not happened yet when the facts at pos are used)
    return init


PURE_OPS = ("->", "*", "==", "!=", "<", "<=", ">", ">=")


def _operands_stable(f, node, dpos, pos, cut=frozenset(), avoid=frozenset()):
    """no operand of the expression is stored (and no call is part of it) between position dpos and position pos (on paths that
    use no edge in `cut` and no position in `avoid`)"""
    ops = set()
    for x in f.desc(node):
        nx = f.nodes[x]
        if nx["k"] == "DeclRefExpr" and nx["ref"].get("dk") in ("local", "parm"):
            ops.add(("v", nx["ref"]["id"]))
        elif nx["k"] == "MemberExpr":
            ops.add(("m", nx.get("m")))
        elif nx["k"] == "CXXOperatorCallExpr" and nx.get("oop") in PURE_OPS:
            continue
        elif nx["k"] in ("CallExpr", "CXXMemberCallExpr", "CXXOperatorCallExpr"):
            return False
    for st in q.stores(f):
        l = f.nodes[st.lhs]
        hit = (l["k"] == "DeclRefExpr" and ("v", l["ref"].get("id")) in ops) or (l["k"] == "MemberExpr" and ("m", l.get("m")) in ops)
        if not hit:
            continue
        sp = f.node_pos(st.node)
        if sp is None:
            return False
        if sp != dpos and sp != pos and sp not in avoid:
            if cut or avoid:
                if path_with_cuts(f, dpos, sp, avoid=avoid, cut=cut) is not None and path_with_cuts(f, sp, pos, avoid=set(avoid) | {dpos}, cut=cut) is not None:
                    return False
            elif f.find_path(dpos, {sp}) is not None and f.find_path(sp, {pos}, avoid={dpos}) is not None:
                return False
    return True


def _expand_named_tests(f, out, pos):
    """atoms that are bool locals naming a test are followed into the test; `a && b` known false with `a` known true gives `b` false
    (and the dual for ||)"""
    def truth_of(node, depth=0):
        node = f.strip(node)
        n = f.nodes[node]
        if n["k"] == "UnaryOperator" and n.get("op") == "!":
            t = truth_of(n["c"][0], depth)
            return None if t is None else (not t)
        if n["k"] == "BinaryOperator" and n.get("op") in ("&&", "||"):
            a, b = truth_of(n["c"][0], depth), truth_of(n["c"][1], depth)
            if n["op"] == "&&":
                return False if (a is False or b is False) else (True if (a and b) else None)
            return True if (a or b) else (False if (a is False and b is False) else None)
        cn = _canon(f, node, True)
        for a_ in out:
            if a_[0] == "case":
                continue
            m_, t_ = a_[0], a_[1]
            ck = _canon(f, m_, t_)
            if ck == cn:
                return True
            if _contradict(ck, cn):
                return False
        return None

    def add(node, truth, depth=0):
        node = f.strip(node)
        n = f.nodes[node]
        if depth > 6:
            return
        if n["k"] == "UnaryOperator" and n.get("op") == "!":
            return add(n["c"][0], not truth, depth + 1)
        if n["k"] == "BinaryOperator" and n.get("op") in ("&&", "||"):
            a, b = n["c"]
            if (n["op"] == "&&") == bool(truth):
                add(a, truth, depth + 1)
                add(b, truth, depth + 1)
            else:
                # one operand decides when the other is known not to
                ta, tb = truth_of(a), truth_of(b)
                if ta is not None and ta != truth:
                    add(b, truth, depth + 1)
                elif tb is not None and tb != truth:
                    add(a, truth, depth + 1)
            return
        if (node, truth) not in out:
            out.append((node, truth))
        if n["k"] == "DeclRefExpr" and n["ref"].get("dk") == "local" and "bool" in (n["ref"].get("t") or n.get("t") or ""):
            init = _stable_init(f, n["ref"]["id"], pos)
            if init is not None:
                add(init, truth, depth + 1)

    def carried(local_id, use_node):
        """a bool local that is false unless one particular assignment ran (`bool pending = false; if(c) pending = e;`): where it is
        known true, that assignment ran - `e` held and so did the tests that guard the assignment (operands unchanged since)"""
        defs = getattr(f, "_defs_cache", None)
        if defs is None:
            defs = f._defs_cache = q.local_defs(f)
        dl = defs.get(local_id, [])
        if any(d[0] == "addr" for d in dl) or len(dl) < 2:
            return
        nonfalse = [d for d in dl if d[2] is None or eval_expr(f, d[2], {}) != 0]
        if len(nonfalse) != 1 or nonfalse[0][2] is None:
            return
        kind, dnode, rhs = nonfalse[0]
        dpos = f.node_pos(dnode)
        if dpos is None or f.find_path(dpos, {pos}) is None and dpos != pos:
            return
        cands = [(rhs, True)] + [(a[0], a[1]) for a in _dominating_atoms_basic(f, dpos) if a[0] != "case"]
        # between the assignment and pos the flag stays true: no path through another (false) definition, none over a branch edge
        # that the flag being true rules out (`while(!done) {... if(c) done = true; else x = y; }` - the else arm is not revisited)
        avoid_ = set(f.node_pos(d[1]) for d in dl if d is not nonfalse[0] and f.node_pos(d[1]) is not None)
        cut_ = set()
        fk = key(f, use_node)
        for b_ in f.blocks.values():
            c_ = b_.get("cond")
            if c_ is None or len(b_["succ"]) != 2 or b_.get("tk") == "SwitchStmt" or None in b_["succ"]:
                continue
            v_ = eval_expr(f, c_, {fk: 1})
            if v_ is not None:
                cut_.add((b_["id"], b_["succ"][1] if v_ else b_["succ"][0]))
        for node, truth in cands:
            if _operands_stable(f, node, dpos, pos, cut=cut_, avoid=avoid_) and (f.strip(node), truth) not in [(f.strip(x[0]), x[1]) for x in out if x[0] != "case"]:
                add(node, truth, 1)

    for _round in range(3):
        before = len(out)
        for a_ in list(out):
            if a_[0] == "case":
                continue
            m_, t_ = a_[0], a_[1]
            n = f.nodes[f.strip(m_)]
            if n["k"] == "DeclRefExpr" and n["ref"].get("dk") == "local" and "bool" in (n["ref"].get("t") or n.get("t") or ""):
                init = _stable_init(f, n["ref"]["id"], pos)
                if init is not None:
                    add(init, t_, 1)
                elif t_:
                    carried(n["ref"]["id"], m_)
        if len(out) == before:
            break


def feasible_valuations(f, pos, domains):
    """valuations (dict) over `domains` (text -> iterable of ints) under which no dominating atom is contradicted;
    also returns the atoms that stayed opaque (not evaluable) as rendered texts with their truth"""
    atoms = dominating_atoms(f, pos)
    import itertools
    keys = sorted(domains)
    feas = []
    for combo in itertools.product(*[list(domains[k]) for k in keys]):
        val = dict(zip(keys, combo))
        ok = True
        for a in atoms:
            if a[0] == "case":
                v = eval_expr(f, a[1], val)
                if v is not None and v != a[2]:
                    ok = False
                    break
                continue
            v = eval_expr(f, a[0], val)
            if v is not None and bool(v) != a[1]:
                ok = False
                break
        if ok and _walk_excludes(f, pos, val):
            ok = False        # a flag local computed from the valuated quantities steers the walk away from this position
        if ok:
            feas.append(val)
    opaque = []
    for a in atoms:
        if a[0] == "case":
            continue
        if eval_expr(f, a[0], {k: list(domains[k])[0] for k in keys}) is None:
            opaque.append((key(f, a[0]), a[1]))
    return feas, opaque, atoms


def _walk_excludes(f, pos, val):
    """True when the guard-directed walk from the entry under `val` (locals followed) runs to a return without any undetermined
    branch and never visits `pos`: the position is unreachable under this valuation although no dominating atom says so directly
    (`bool need = true; if(t == S) need = ref > 1; if(need) {...}`)."""
    tgt = None
    b, i = pos
    els = f.blocks[b]["el"]
    if i < len(els) and isinstance(els[i], int):
        tgt = els[i]
    if tgt is None:
        return False
    cache = getattr(f, "_walk_cache", None)
    if cache is None:
        cache = f._walk_cache = {}
    k = tuple(sorted(val.items()))
    if k not in cache:
        # walk_vals tracks stores to valuated keys as well: stop following once one of them is overwritten (then nothing is excluded)
        seen, end, _fv = walk_vals(f, f.entry, val)
        tainted = False
        for e in seen:
            ne = f.nodes[e]
            if ne["k"] in ("BinaryOperator", "CompoundAssignOperator") and ne.get("op", "").endswith("=") and ne.get("op") not in ("==", "!=", "<=", ">=") \
               and key(f, ne["c"][0]) in val:
                tainted = True
            if ne["k"] in ("CXXMemberCallExpr",) and not ne.get("csig", "").endswith(" const") and "this" in f.r(e)[:6]:
                tainted = tainted or False
        cache[k] = (set(seen), end, tainted)
    seen, end, tainted = cache[k]
    if tainted or not (isinstance(end, int) or end == "exit"):
        return False
    return tgt not in seen


def incoming_edge_atoms(f, block):
    """for each CFG edge into `block`: the atoms that hold on that edge (own condition of the predecessor)"""
    out = []
    for p in f.preds.get(block, []):
        b = f.blocks[p]
        c = b.get("cond")
        atoms = []
        if c is not None and len(b["succ"]) == 2 and b.get("tk") != "SwitchStmt" and b["succ"][0] != b["succ"][1]:
            truth = b["succ"][0] == block
            atoms = list(q.cond_atoms(f, c, truth))
        out.append((p, atoms))
    return out


def walk(f, start_block, val, limit=400, stop_at_loop_back=True):
    """guard-directed walk: follow the CFG from `start_block`, deciding every branch by evaluating its condition under the
    valuation (two-way branches and switch statements); nothing of the analysed program is executed.
    returns (visited element node ids in order, end) where end is the ReturnStmt node reached or a string reason"""
    seen = []
    b = start_block
    back = set(f.dom().get(start_block, set())) - {start_block} if stop_at_loop_back else set()
    first = True
    for _ in range(limit):
        if not first and b in back:
            return seen, "loop back"
        first = False
        blk = f.blocks[b]
        for e in blk["el"]:
            if isinstance(e, int):
                seen.append(e)
                ne = f.nodes[e]
                if ne["k"] == "ReturnStmt":
                    return seen, e
                # a store of a determined value into a valuated variable updates the valuation (e.g. `sent = 0`)
                if ne["k"] == "BinaryOperator" and ne["op"] == "=":
                    lk = key(f, ne["c"][0])
                    if lk in val:
                        nv = eval_expr(f, ne["c"][1], val)
                        val = dict(val)
                        if nv is None:
                            del val[lk]
                        else:
                            val[lk] = nv
        if isinstance(blk.get("term"), int) and f.nodes[blk["term"]]["k"] == "ReturnStmt":
            return seen, blk["term"]
        succ = blk["succ"]
        if b == f.exit:
            return seen, "exit"
        if len(succ) == 1:
            if succ[0] is None:
                return seen, "dead end"
            b = succ[0]
            continue
        c = blk.get("cond")
        if blk.get("tk") == "SwitchStmt" and c is not None:
            v = eval_expr(f, c, val)
            if v is None:
                return seen, "undetermined: " + key(f, c)
            target = None
            default = None
            for s in succ:
                if s is None:
                    continue
                lab = f.blocks[s].get("label")
                l = lab
                is_def = lab is None
                while l is not None and l >= 0 and f.nodes[l]["k"] in ("CaseStmt", "DefaultStmt"):
                    if f.nodes[l]["k"] == "CaseStmt" and f.nodes[l].get("v") == v:
                        target = s
                    if f.nodes[l]["k"] == "DefaultStmt":
                        is_def = True
                    nxt = [x for x in f.nodes[l]["c"] if x >= 0 and f.nodes[x]["k"] in ("CaseStmt", "DefaultStmt")]
                    l = nxt[0] if nxt else None
                if is_def:
                    default = s
            b = target if target is not None else default
            if b is None:
                return seen, "dead end"
            continue
        if len(succ) == 2 and c is not None:
            v = eval_expr(f, c, val)
            if v is None:
                return seen, "undetermined: " + key(f, c)
            b = succ[0] if v else succ[1]
            if b is None:
                return seen, "dead end"
            continue
        if len(succ) == 2 and c is None:
            # for(;;) style blocks with a pruned edge
            b = succ[0] if succ[0] is not None else succ[1]
            if b is None:
                return seen, "dead end"
            continue
        return seen, "unsupported terminator"
    return seen, "limit"


def relations(f, pos, render=None):
    """order/equality facts established by the branch edges that dominate `pos`, normalised so that spelling does not matter:
    a set of (lhs, op, rhs) with op in {'<', '<=', '==', '!='}; `a > b` true gives (b,'<',a), `a >= b` false gives (a,'<',b), ...
    Operand texts come from `render(node)` (default: cast-free rendering with single-definition locals expanded)."""
    R = render or (lambda i: q.no_casts(q.xr(f, i)))
    out = set()
    for a in dominating_atoms(f, pos):
        if a[0] == "case":
            continue
        node, truth = a
        n = f.nodes[f.strip(node)]
        if n["k"] != "BinaryOperator" or len(n["c"]) != 2 or n.get("op") not in ("<", "<=", ">", ">=", "==", "!="):
            continue
        l, r, op = R(n["c"][0]), R(n["c"][1]), n["op"]
        if not truth:
            op = {"<": ">=", "<=": ">", ">": "<=", ">=": "<", "==": "!=", "!=": "=="}[op]
        if op == ">":
            l, r, op = r, l, "<"
        elif op == ">=":
            l, r, op = r, l, "<="
        out.add((l, op, r))
        if op in ("==", "!="):
            out.add((r, op, l))
    return out


def walk_vals(f, start_block, val, limit=400, stop_at_loop_back=False, assume=None, stop_at=None, seq=None, trace=None):
    """like walk(), but every assignment / compound assignment / initialisation of a local whose value is determined is recorded, and
    the final valuation is returned as third result.  `assume(key)` may supply a value for an undetermined branch condition."""
    val = dict(val)
    oracle = dict(val)       # a supplied value of a variable stands for the outcome of its undetermined definition (`sent = send(..)`)
    seq_count = {}
    seen_all = []
    b = start_block
    back = set(f.dom().get(start_block, set())) - {start_block} if stop_at_loop_back else set()
    first = True
    OPS = {"|=": lambda a, b: a | b, "&=": lambda a, b: a & b, "^=": lambda a, b: a ^ b, "+=": lambda a, b: a + b, "-=": lambda a, b: a - b}
    for _ in range(limit):
        if not first and b in back:
            return seen_all, "loop back", val
        first = False
        blk = f.blocks[b]
        for e in blk["el"]:
            if not isinstance(e, int):
                continue
            if stop_at is not None and e == stop_at:
                return seen_all, "stop", val
            seen_all.append(e)
            ne = f.nodes[e]
            if trace is not None:
                trace(e, val)       # the valuation before this element takes effect
            if seq and ne["k"] in ("CallExpr", "CXXMemberCallExpr"):
                # successive evaluations of one call site yield the successive outcomes of `seq[key]` (the last one repeats)
                ks_ = key(f, e)
                if ks_ in seq:
                    n_ = seq_count.get(ks_, 0)
                    val[ks_] = oracle[ks_] = seq[ks_][min(n_, len(seq[ks_]) - 1)]
                    seq_count[ks_] = n_ + 1
            if ne["k"] == "ReturnStmt":
                return seen_all, e, val
            if ne["k"] in ("BinaryOperator", "CompoundAssignOperator") and ne.get("op") in ("=",) + tuple(OPS) and ne["c"]:
                lk = key(f, ne["c"][0])
                l = f.nodes[f.strip(ne["c"][0])]
                if lk in val or (l["k"] == "DeclRefExpr" and l["ref"].get("dk") in ("local", "parm")):
                    x = eval_expr(f, ne["c"][1], val)
                    if ne["op"] != "=":
                        o = val.get(lk)
                        x = None if (x is None or o is None) else OPS[ne["op"]](o, x)
                    if x is None and ne["op"] == "=" and lk in oracle:
                        val[lk] = oracle[lk]
                    elif x is None:
                        val.pop(lk, None)
                    else:
                        val[lk] = x
            elif ne["k"] == "UnaryOperator" and ne.get("op") in ("++", "--") and ne["c"]:
                lk = key(f, ne["c"][0])
                if isinstance(val.get(lk), int):
                    val[lk] = val[lk] + (1 if ne["op"] == "++" else -1)
            elif ne["k"] == "DeclStmt":
                for d in ne["decls"]:
                    if d.get("init") is not None:
                        x = eval_expr(f, d["init"], val)
                        if x is not None:
                            val[d["n"]] = x
                        elif d["n"] in oracle:
                            val[d["n"]] = oracle[d["n"]]
                        else:
                            val.pop(d["n"], None)
        if isinstance(blk.get("term"), int) and f.nodes[blk["term"]]["k"] == "ReturnStmt":
            return seen_all, blk["term"], val
        succ = blk["succ"]
        if b == f.exit:
            return seen_all, "exit", val
        if len(succ) == 1:
            if succ[0] is None:
                return seen_all, "dead end", val
            b = succ[0]
            continue
        c = blk.get("cond")
        if len(succ) == 2 and c is not None and blk.get("tk") != "SwitchStmt":
            v = eval_expr(f, c, val)
            if v is None and assume is not None:
                v = assume(key(f, c))
            if v is None:
                return seen_all, "undetermined: " + key(f, c), val
            b = succ[0] if v else succ[1]
            if b is None:
                return seen_all, "dead end", val
            continue
        if len(succ) == 2 and c is None:
            b = succ[0] if succ[0] is not None else succ[1]
            if b is None:
                return seen_all, "dead end", val
            continue
        if blk.get("tk") == "SwitchStmt" and c is not None:
            v = eval_expr(f, c, val)
            if v is None and assume is not None:
                v = assume(key(f, c))
            if v is None:
                return seen_all, "undetermined: " + key(f, c), val
            target = None
            default = None
            for s_ in succ:
                if s_ is None:
                    continue
                lab = f.blocks[s_].get("label")
                l_ = lab
                is_def = lab is None
                while l_ is not None and l_ >= 0 and f.nodes[l_]["k"] in ("CaseStmt", "DefaultStmt"):
                    if f.nodes[l_]["k"] == "CaseStmt" and f.nodes[l_].get("v") == v:
                        target = s_
                    if f.nodes[l_]["k"] == "DefaultStmt":
                        is_def = True
                    nxt = [x for x in f.nodes[l_]["c"] if x >= 0 and f.nodes[x]["k"] in ("CaseStmt", "DefaultStmt")]
                    l_ = nxt[0] if nxt else None
                if is_def:
                    default = s_
            b = target if target is not None else default
            if b is None:
                return seen_all, "dead end", val
            continue
        return seen_all, "unsupported terminator", val
    return seen_all, "limit", val


def value_at(f, expr, site, val):
    """value of `expr` (an argument of the call `site`) under the valuation `val`; when it is a local built up by several statements
    (`uint x = A; if(c) x |= B;`) the statements between its declaration and the site are followed under `val`"""
    v = eval_expr(f, expr, val)
    if v is not None:
        return v
    n = f.nodes[f.strip(expr)]
    if n["k"] != "DeclRefExpr" or n["ref"].get("dk") != "local":
        return None
    for d in f.nodes:
        if d["k"] == "DeclStmt" and any(x["id"] == n["ref"]["id"] for x in d["decls"]):
            p = f.node_pos(d["i"])
            if p is None or not f.dominates_pos(p, f.node_pos(site)):
                return None
            _seen, end, fv = walk_vals(f, p[0], val, stop_at=site)
            if end != "stop":
                return None
            return fv.get(n["ref"]["n"])
    return None


def path_with_cuts(f, src, dst, avoid=frozenset(), cut=frozenset(), after_src=True):
    """a path of positions from src to dst that avoids the positions in `avoid` and the block-to-block edges in `cut`; None if none"""
    from collections import deque
    prev = {}
    dq = deque()
    for s_ in (f.succs_pos(src) if after_src else [src]):
        if s_ not in avoid and not (s_[0] != src[0] and (src[0], s_[0]) in cut):
            prev[s_] = None
            dq.append(s_)
    while dq:
        x = dq.popleft()
        if x == dst:
            out = [x]
            while prev[out[-1]] is not None:
                out.append(prev[out[-1]])
            return list(reversed(out))
        for y in f.succs_pos(x):
            if y in prev or y in avoid or (x[0] != y[0] and (x[0], y[0]) in cut):
                continue
            prev[y] = x
            dq.append(y)
    return None


def always_before(f, pos, must_nodes):
    """does every path from the entry to `pos` that is consistent with the facts known at `pos` pass one of `must_nodes`?
    Branch edges whose condition contradicts a fact known at pos (operands unchanged in between) are not taken by such a path:
    `bool pending = false; if(p) { p->a = n; if(!n) pending = p->dirty; } if(pending) <pos>` - the store to p->a precedes pos."""
    known = [(a[0], a[1]) for a in dominating_atoms(f, pos) if a[0] != "case"]
    kc = [_canon(f, n_, t_) for n_, t_ in known]
    cut = set()
    for b in f.blocks.values():
        c = b.get("cond")
        if c is None or len(b["succ"]) != 2 or b.get("tk") == "SwitchStmt" or b["succ"][0] == b["succ"][1]:
            continue
        bp = (b["id"], len(b["el"]))
        for k in (0, 1):
            if b["succ"][k] is None:
                continue
            for an, tr in q.cond_atoms(f, c, k == 0):
                if any(_contradict(_canon(f, an, tr), x) for x in kc) and _operands_stable(f, an, bp, pos):
                    cut.add((b["id"], b["succ"][k]))
    must = set(p_ for p_ in (f.node_pos(m) for m in must_nodes) if p_ is not None)
    if pos in must:
        return True
    return path_with_cuts(f, f.entry_pos(), pos, avoid=must, cut=cut, after_src=False) is None


def always_after(f, pos, must_pos):
    """does every path from `pos` to the exit that is consistent with the facts known at `pos` pass one of the positions `must_pos`?
    (`const bool owned = x->ref != 0; if(owned) increment(x->ref); ...; if(owned) data = x;` - the second test repeats the first)"""
    known = [(a[0], a[1]) for a in dominating_atoms(f, pos) if a[0] != "case"]
    kc = [_canon(f, n_, t_) for n_, t_ in known]
    cut = set()
    for b in f.blocks.values():
        c = b.get("cond")
        if c is None or len(b["succ"]) != 2 or b.get("tk") == "SwitchStmt" or b["succ"][0] == b["succ"][1]:
            continue
        bp = (b["id"], len(b["el"]))
        for k in (0, 1):
            if b["succ"][k] is None:
                continue
            for an, tr in q.cond_atoms(f, c, k == 0):
                if any(_contradict(_canon(f, an, tr), x) for x in kc) and _operands_stable(f, an, pos, bp):
                    cut.add((b["id"], b["succ"][k]))
    must = set(must_pos)
    if pos in must:
        return True
    return path_with_cuts(f, pos, f.exit_pos(), avoid=must, cut=cut) is None


def through_all_pass(f, pos, must_pos):
    """every entry->exit path through `pos` that is consistent with the facts known at `pos` passes one of `must_pos` (before or after)"""
    must = set(must_pos)
    if not must:
        return False
    if pos in must:
        return True
    # before: reuse always_before's cuts through a node-free call
    known = [(a[0], a[1]) for a in dominating_atoms(f, pos) if a[0] != "case"]
    kc = [_canon(f, n_, t_) for n_, t_ in known]
    cut = set()
    for b in f.blocks.values():
        c = b.get("cond")
        if c is None or len(b["succ"]) != 2 or b.get("tk") == "SwitchStmt" or b["succ"][0] == b["succ"][1]:
            continue
        bp = (b["id"], len(b["el"]))
        for k in (0, 1):
            if b["succ"][k] is None:
                continue
            for an, tr in q.cond_atoms(f, c, k == 0):
                if any(_contradict(_canon(f, an, tr), x) for x in kc) and _operands_stable(f, an, bp, pos):
                    cut.add((b["id"], b["succ"][k]))
    pre = path_with_cuts(f, f.entry_pos(), pos, avoid=must, cut=cut, after_src=False)
    return pre is None or always_after(f, pos, must)


def edge_atoms(f, blk, to_block):
    """atoms that hold on the branch edge blk -> to_block, bool locals that name a test followed into it"""
    c = blk.get("cond")
    if c is None or len(blk["succ"]) != 2 or blk.get("tk") == "SwitchStmt" or blk["succ"][0] == blk["succ"][1] or to_block not in blk["succ"]:
        return []
    out = list(q.cond_atoms(f, c, blk["succ"][0] == to_block))
    _expand_named_tests(f, out, (blk["id"], len(blk["el"])))
    return out


def alias_guard_edges(f, other_name):
    """CFG edges (block, successor) on which `this != &other` is known - the test may be spelled either way round, negated, or kept
    in a bool local (`const bool isSelf = this == &other; if(!isSelf) ...`)"""
    out = []
    want = {"this", "&" + other_name}
    for b in f.blocks.values():
        if b.get("cond") is None or len(b["succ"]) != 2 or b.get("tk") == "SwitchStmt" or b["succ"][0] == b["succ"][1]:
            continue
        for s_ in b["succ"]:
            if s_ is None:
                continue
            for an, tr in edge_atoms(f, b, s_):
                cn = _canon(f, an, tr)
                if cn[0] != "val" and cn[1] == "!=" and {cn[0], cn[2]} == want:
                    out.append((b["id"], s_))
    return out
