"""Parser-cursor abstract interpretation (rule template CUR).

For every tracked `const char*` cursor the state holds
    k     : number of bytes at the cursor known to be non-NUL (0..KMAX); the byte at offset k exists but may be NUL
    first : the exact value of the byte at the cursor when a dominating test established it (else None)
Reads at offset i need k >= i, advances by n need k >= n.  Knowledge comes from case labels, comparisons with
non-zero characters, successful String::compare with a NUL-free literal, character-class predicates and
find/findOneOf results.  Join = pointwise minimum.  A second pass looks for cycles on which no tracked cursor
is guaranteed to advance (termination of tokenizer loops)."""
import re
from . import q, fin

KMAX = 16
CLASS_PRED = ("String::isHexDigit", "String::isDigit", "String::isSpace", "String::isAlpha", "String::isAlphanumeric", "String::isPunct",
              "String::isLowerCase", "String::isUpperCase", "isdigit", "isspace", "isalpha", "isxdigit")
FINDERS = ("String::findOneOf", "String::find", "strpbrk", "strchr")


class CursorAnalysis:
    def __init__(self, f, cursors, summaries=None, struct_cursor=None):
        """cursors: rendered texts of the tracked cursor lvalues (e.g. 'this->pos.pos', 'src');
        summaries: callee gname -> dict(min_advance=int) for callees that move the (member) cursor"""
        self.f = f
        self.cur = list(cursors)
        self.summ = summaries or {}
        self.struct_cursor = struct_cursor      # e.g. 'this->pos' : assigning the struct resets the cursor
        self.viol = []
        self.checked = 0
        self.adv_pos = set()       # positions of guaranteed advances (any tracked cursor)
        self.rewind_pos = set()
        self.save_pos = set()
        self.defs = q.local_defs(f)
        # locals that hold pointers derived from a cursor (results of findOneOf etc.)
        self.derived = {}
        for did, dl in self.defs.items():
            for kind, nd, init in dl:
                if init is None:
                    continue
                n = f.nodes[f.strip(init)]
                if n["k"] == "CallExpr" and n.get("callee") in FINDERS:
                    nm = self._name_of(did)
                    if nm:
                        self.derived[nm] = init

    def _name_of(self, did):
        for n in self.f.nodes:
            if n["k"] == "DeclRefExpr" and n["ref"]["id"] == did:
                return n["ref"]["n"]
            if n["k"] == "DeclStmt":
                for d in n["decls"]:
                    if d["id"] == did:
                        return d["n"]
        return None

    # ------------------------------------------------------------ helpers
    def T(self, i):
        return q.no_casts(self.f.r(self.f.strip(i)))

    def tracked(self, text):
        return text in self.cur or text in self.derived

    def ptr_plus(self, i):
        """decompose node into (tracked pointer text, constant offset) or None"""
        f = self.f
        i = f.strip(i)
        n = f.nodes[i]
        while n["k"] in ("CStyleCastExpr", "CXXStaticCastExpr", "CXXReinterpretCastExpr", "CXXConstCastExpr") and n["c"]:
            i = f.strip(n["c"][0])
            n = f.nodes[i]
        t = self.T(i)
        if self.tracked(t):
            return t, 0
        if n["k"] == "BinaryOperator" and n["op"] in ("+", "-"):
            a = self.ptr_plus(n["c"][0])
            c = fin.eval_expr(f, n["c"][1], {})
            if a is not None and c is not None:
                return a[0], a[1] + (c if n["op"] == "+" else -c)
        return None

    def deref(self, i):
        """if node i reads a byte through a tracked pointer: (ptr text, offset) else None"""
        f = self.f
        i = f.strip(i)
        n = f.nodes[i]
        if n["k"] == "UnaryOperator" and n["op"] == "*":
            inner = f.strip(n["c"][0])
            m = f.nodes[inner]
            if m["k"] == "UnaryOperator" and m["op"] in ("++", "--"):
                pp = self.ptr_plus(m["c"][0])
                if pp:
                    # *(++p): the advance is accounted for by the ++ element; the read is at offset 0 afterwards (pre) or before (post)
                    return pp[0], 0
            pp = self.ptr_plus(inner)
            if pp:
                return pp
        if n["k"] == "ArraySubscriptExpr":
            pp = self.ptr_plus(n["c"][0])
            c = fin.eval_expr(f, n["c"][1], {})
            if pp and c is not None:
                return pp[0], pp[1] + c
        return None

    def char_alias(self, i, st):
        """a char local that was assigned `*p` (e.g. switch((c = *pos.pos))) stands for the byte at p"""
        f = self.f
        i = f.strip(i)
        n = f.nodes[i]
        if n["k"] in ("DeclRefExpr", "MemberExpr"):
            a = st.get("alias", {}).get(self.T(i))
            if a:
                return a, 0
        return None

    # ------------------------------------------------------------ state
    def init_state(self):
        return {"k": {}, "first": {}, "alias": {}, "same": {}}

    def copy(self, st):
        return {"k": dict(st["k"]), "first": dict(st["first"]), "alias": dict(st["alias"]), "same": dict(st.get("same", {}))}

    def join(self, a, b):
        if a == b:
            return a
        r = self.init_state()
        for p in set(a["k"]) | set(b["k"]):
            r["k"][p] = min(a["k"].get(p, 0), b["k"].get(p, 0))
        for p in set(a["first"]) & set(b["first"]):
            if a["first"][p] == b["first"][p]:
                r["first"][p] = a["first"][p]
        for c in set(a["alias"]) & set(b["alias"]):
            if a["alias"][c] == b["alias"][c]:
                r["alias"][c] = a["alias"][c]
        for c in set(a.get("same", {})) & set(b.get("same", {})):
            if a["same"][c] == b["same"][c]:
                r["same"][c] = a["same"][c]
        return r

    def K(self, st, p):
        return st["k"].get(p, 0)

    def need(self, st, p, n, node, what):
        self.checked += 1
        if n > self.K(st, p):
            self.viol.append((node, p, n, self.K(st, p), what))

    def moved(self, st, p, newk, first=None):
        st["k"][p] = max(0, min(KMAX, newk))
        st["first"].pop(p, None)
        if first is not None:
            st["first"][p] = first
        for c in [c for c, a in st["alias"].items() if a == p]:
            del st["alias"][c]
        for c in [c for c, a in st.get("same", {}).items() if a == p or c == p]:
            del st["same"][c]

    # ------------------------------------------------------------ transfer
    def transfer(self, st, e):
        f = self.f
        if not isinstance(e, int):
            return st
        n = f.nodes[e]
        k = n["k"]
        st = self.copy(st)
        pos = f.node_pos(e)
        # reads with offset
        d = self.deref(e)
        if d is not None and d[1] > 0:
            self.need(st, d[0], d[1], e, "read of the byte at offset %d" % d[1])
        if k == "UnaryOperator" and n["op"] in ("++", "--"):
            pp = self.ptr_plus(n["c"][0])
            if pp and pp[1] == 0:
                if n["op"] == "++":
                    self.need(st, pp[0], 1, e, "advance by 1")
                    self.moved(st, pp[0], self.K(st, pp[0]) - 1)
                    self.adv_pos.add(pos)
                else:
                    self.moved(st, pp[0], self.K(st, pp[0]) + 1)
            return st
        if k == "CompoundAssignOperator" and n["op"] in ("+=", "-="):
            pp = self.ptr_plus(n["c"][0])
            c = fin.eval_expr(f, n["c"][1], {})
            if pp and pp[1] == 0:
                if c is None:
                    self.moved(st, pp[0], 0)
                    rt_ = q.no_casts(f.r(n["c"][1]))
                    to_end = n["op"] == "+=" and re.match(r"^(String::length|strlen)\(%s\)$" % re.escape(pp[0]), rt_) is not None
                    if n["op"] == "+=" and not to_end:       # `p += String::length(p)` stops exactly at the terminator, like `p = p + length(p)`
                        self.viol.append((e, pp[0], None, self.K(st, pp[0]), "advance by a non-constant amount"))
                elif n["op"] == "+=":
                    self.need(st, pp[0], c, e, "advance by %d" % c)
                    self.moved(st, pp[0], self.K(st, pp[0]) - c)
                    if c >= 1:
                        self.adv_pos.add(pos)
                else:
                    self.moved(st, pp[0], self.K(st, pp[0]) + c)
                    self.rewind_pos.add(pos)
            return st
        if k == "BinaryOperator" and n["op"] == "=":
            lt = self.T(n["c"][0])
            ln = f.nodes[f.strip(n["c"][0])]
            if self.tracked(lt):
                rhs = f.strip(n["c"][1])
                rn = f.nodes[rhs]
                pp = self.ptr_plus(rhs)
                if rn["k"] == "CallExpr" and rn.get("callee") in FINDERS:
                    # result points at a matched (non-NUL) byte when non-null
                    self.moved(st, lt, 1)
                elif pp is not None:
                    src, off = pp
                    if off > 0:
                        self.need(st, src, off, e, "cursor set %d bytes beyond `%s`" % (off, src))
                    newk = self.K(st, src) - off
                    # is it a guaranteed advance of lt?  (a) same pointer + positive offset, (b) a finder result on lt whose first byte is known not to match
                    if src == lt and off >= 1:
                        self.adv_pos.add(pos)
                    elif src in self.derived and lt in self.cur:
                        call = f.nodes[f.strip(self.derived[src])]
                        args = call["c"][1:]
                        base = self.ptr_plus(args[0]) if args else None
                        if base and base[0] == lt:
                            if off + base[1] >= 1:
                                self.adv_pos.add(pos)
                            else:
                                fst = st["first"].get(lt)
                                chars = self.set_of(args[1]) if len(args) > 1 else None
                                if fst is not None and chars is not None and fst not in chars:
                                    self.adv_pos.add(pos)
                    self.moved(st, lt, newk)
                    if off == 0 and src != lt:
                        st["same"][lt] = src
                        st["same"][src] = lt
                elif rn["k"] == "BinaryOperator" and rn["op"] == "+" and any("String::length(" in f.r(c) or "strlen(" in f.r(c) for c in rn["c"]):
                    self.moved(st, lt, 0)
                else:
                    self.moved(st, lt, 0)
                    self.rewind_pos.add(pos)
                return st
            # char alias: c = *p   (a local or a member such as token.token)
            if ln["k"] in ("DeclRefExpr", "MemberExpr"):
                d2 = self.deref(n["c"][1])
                if d2 is not None and d2[1] == 0:
                    st["alias"][lt] = d2[0]
                else:
                    st["alias"].pop(lt, None)
            if self.struct_cursor and lt == self.struct_cursor:
                for p in self.cur:
                    if p.startswith(self.struct_cursor):
                        self.moved(st, p, 0)
                self.rewind_pos.add(pos)
            return st
        if k == "CXXOperatorCallExpr" and n.get("oop") == "=" and self.struct_cursor and len(n["c"]) >= 3 and self.T(n["c"][1]) == self.struct_cursor:
            for p in self.cur:
                if p.startswith(self.struct_cursor):
                    self.moved(st, p, 0)
            self.rewind_pos.add(pos)
            return st
        if k == "DeclStmt":
            for dcl in n["decls"]:
                if "init" not in dcl:
                    continue
                nm = dcl["n"]
                init = f.strip(dcl["init"])
                inn = f.nodes[init]
                if nm in self.derived or nm in self.cur:
                    if inn["k"] == "CallExpr" and inn.get("callee") in FINDERS:
                        self.moved(st, nm, 1)
                    else:
                        pp = self.ptr_plus(init)
                        if pp:
                            if pp[1] > 0:
                                self.need(st, pp[0], pp[1], e, "pointer set %d bytes beyond `%s`" % (pp[1], pp[0]))
                            self.moved(st, nm, self.K(st, pp[0]) - pp[1], st["first"].get(pp[0]) if pp[1] == 0 else None)
                        else:
                            self.moved(st, nm, 0)
                ini = f.strip(dcl["init"])
                if f.nodes[ini]["k"] == "CXXConstructExpr" and f.nodes[ini].get("copyctor") and f.nodes[ini]["c"]:
                    ini = f.strip(f.nodes[ini]["c"][0])
                if self.struct_cursor and self.T(ini) == self.struct_cursor:
                    self.save_pos.add(pos)
                d2 = self.deref(dcl["init"])
                if d2 is not None and d2[1] == 0 and "char" in dcl["t"]:
                    st["alias"][nm] = d2[0]
            return st
        if k in ("CallExpr", "CXXMemberCallExpr"):
            callee = n.get("callee", "")
            from .report import strip_targs
            g = strip_targs(callee)
            if g in self.summ:
                for p in self.cur:
                    self.moved(st, p, 0)
                if self.summ[g].get("min_advance", 0) >= 1:
                    # conditional on the callee's success: recorded by the caller through success_adv
                    pass
            else:
                # pointer arguments beyond the cursor
                for a in q.call_args(f, e):
                    pp = self.ptr_plus(a)
                    if pp and pp[1] > 0:
                        self.need(st, pp[0], pp[1], e, "argument %d bytes beyond `%s`" % (pp[1], pp[0]))
            return st
        return st

    def set_of(self, i):
        f = self.f
        n = f.nodes[f.strip(i)]
        if n["k"] == "StringLiteral":
            return set(n.get("bytes", []))
        if n["k"] == "CharacterLiteral":
            return {n["v"]}
        return None

    # ------------------------------------------------------------ refinement
    def learn(self, st, atom, truth):
        """refine with one atomic condition (node id) known to be `truth`"""
        f = self.f
        a = f.strip(atom)
        n = f.nodes[a]

        def known(p, off, kmin, first=None, _rec=True):
            if off <= self.K(st, p):
                if st["k"].get(p, 0) < off + kmin:
                    st["k"][p] = min(KMAX, off + kmin)
                if first is not None and off == 0:
                    st["first"][p] = first
            o = st.get("same", {}).get(p)
            if o is not None and _rec:
                known(o, off, kmin, first, False)

        def zero(p, off, _rec=True):
            if off == 0:
                st["k"][p] = 0
                st["first"][p] = 0
            elif off <= self.K(st, p):
                st["k"][p] = off
            o = st.get("same", {}).get(p)
            if o is not None and _rec:
                zero(o, off, False)

        d = self.deref(a) or self.char_alias(a, st)
        if d is not None:
            if truth:
                known(d[0], d[1], 1)
            else:
                zero(d[0], d[1])
            return
        if n["k"] == "UnaryOperator" and n["op"] == "!":
            self.learn(st, n["c"][0], not truth)
            return
        if n["k"] == "BinaryOperator" and n["op"] in ("==", "!="):
            eq = (n["op"] == "==") == truth
            for x, y in ((n["c"][0], n["c"][1]), (n["c"][1], n["c"][0])):
                d = self.deref(x) or self.char_alias(x, st)
                v = fin.eval_expr(f, y, {})
                if d is not None and v is not None:
                    if eq and v != 0:
                        known(d[0], d[1], 1, v)
                    elif eq and v == 0:
                        zero(d[0], d[1])
                    elif not eq and v == 0:
                        known(d[0], d[1], 1)
                    return
                # String::compare(p (+n), "lit", len) == 0
                xn = f.nodes[f.strip(x)]
                if xn["k"] == "CallExpr" and xn.get("callee") in ("String::compare", "strncmp", "Memory::compare") and v == 0 and eq:
                    args = xn["c"][1:]
                    if len(args) >= 3:
                        ln = fin.eval_expr(f, args[2], {})
                        for pa, lit in ((args[0], args[1]), (args[1], args[0])):
                            pp = self.ptr_plus(pa)
                            litn = f.nodes[f.strip(lit)]
                            if pp and litn["k"] == "StringLiteral" and ln is not None:
                                bts = litn.get("bytes", [])
                                m = 0
                                while m < min(ln, len(bts)) and bts[m] != 0:
                                    m += 1
                                known(pp[0], pp[1], m, bts[0] if bts and pp[1] == 0 else None)
                    return
            return
        if n["k"] == "CallExpr" and n.get("callee") in CLASS_PRED and truth:
            args = n["c"][1:]
            if args:
                d = self.deref(args[0]) or self.char_alias(args[0], st)
                if d is not None:
                    known(d[0], d[1], 1)
            return
        if n["k"] == "BinaryOperator" and n["op"] in ("<", "<=", ">", ">="):
            # *p > ' ' etc. true implies non-NUL when the constant bound is positive and p's byte is the larger side
            return
        # a finder result tested for null: non-null means it points at a matched byte
        t = self.T(a)
        if t in self.derived and truth:
            if st["k"].get(t, 0) < 1:
                st["k"][t] = 1

    def refine(self, st, blk, kidx):
        f = self.f
        c = blk.get("cond")
        if c is None:
            return st
        st = self.copy(st)
        if blk.get("tk") == "SwitchStmt":
            s = blk["succ"][kidx]
            cond = f.strip(c)
            cn = f.nodes[cond]
            d = self.deref(cond) or self.char_alias(cond, st)
            if d is None and cn["k"] == "BinaryOperator" and cn["op"] == "=":
                d = self.deref(cn["c"][1])
            if d is None or s is None:
                return st
            lab = f.blocks[s].get("label")
            labs = [f.blocks[x].get("label") for x in blk["succ"] if x is not None]
            has_zero = any(l is not None and f.nodes[l]["k"] == "CaseStmt" and f.nodes[l].get("v") == 0 for l in labs)
            # all case labels that fall into the same block (case 'a': case 'b':) are chained label statements
            vals = []
            l = lab
            while l is not None and l >= 0 and f.nodes[l]["k"] in ("CaseStmt", "DefaultStmt"):
                if f.nodes[l]["k"] == "CaseStmt":
                    vals.append(f.nodes[l].get("v"))
                else:
                    vals.append("default")
                nxt = [x for x in f.nodes[l]["c"] if x >= 0 and f.nodes[x]["k"] in ("CaseStmt", "DefaultStmt")]
                l = nxt[0] if nxt else None
            p, off = d
            if off != 0:
                return st
            if vals and all(v not in (0, "default") for v in vals):
                if st["k"].get(p, 0) < 1:
                    st["k"][p] = 1
                if len(vals) == 1:
                    st["first"][p] = vals[0]
            elif vals == [0]:
                st["k"][p] = 0
                st["first"][p] = 0
            elif "default" in vals and 0 not in vals and has_zero:
                if st["k"].get(p, 0) < 1:
                    st["k"][p] = 1
            elif lab is None and has_zero and all(l is not None for l in labs if l is not lab):
                # implicit default edge (no default label): every listed value was excluded
                if st["k"].get(p, 0) < 1:
                    st["k"][p] = 1
            return st
        if len(blk["succ"]) != 2:
            return st
        for a, t in q.cond_atoms(f, c, kidx == 0):
            self.learn(st, a, t)
            # a bool local that carries a test (`closed = *end == '?' && end[1] == '>'; if(closed) ...`): on its true edge the
            # conjuncts of the definition that reaches this branch hold (nothing is learned from the false edge of a conjunction)
            na = f.nodes[f.strip(a)]
            if t and na["k"] == "DeclRefExpr" and na["ref"].get("dk") == "local" and na["ref"].get("t") in ("bool", "const bool"):
                rd = q.reaching_def(f, na["ref"]["id"], f.strip(a))
                if rd is not None:
                    for a2, t2 in q.cond_atoms(f, rd, True):
                        if f.nodes[f.strip(a2)]["k"] != "DeclRefExpr":
                            self.learn(st, a2, t2)
        return st

    # ------------------------------------------------------------ driver
    def run(self, entry_state=None):
        f = self.f
        init = entry_state or self.init_state()
        # two passes: the first collects the fixpoint, violations are recorded in the final pass only
        sin, sat = q.forward(f, init, self.transfer, self.refine, self.join, max_iter=4000)
        self.viol = []
        self.checked = 0
        seen = set()
        for b in sorted(f.blocks):
            st = sin.get(b)
            if st is None:
                continue
            for e in f.blocks[b]["el"]:
                st = self.transfer(st, e)
        out = []
        for v in self.viol:
            key = (v[0], v[1], v[2])
            if key not in seen:
                seen.add(key)
                out.append(v)
        self.viol = out
        self.sin, self.sat = sin, sat
        return out

    def cycles_without_advance(self, extra_adv=(), success_adv=None):
        """positions on a CFG cycle along which no guaranteed cursor advance happens.
        extra_adv: positions that count as advances (e.g. successful callee with min_advance >= 1)
        returns a witness path (list of positions) or None"""
        f = self.f
        adv = set(self.adv_pos) | set(extra_adv)
        # only cycles that touch a cursor matter: a loop that never reads a cursor is not a tokenizer loop
        touch = set()
        for b in f.blocks.values():
            for i, e in enumerate(b["el"]):
                if isinstance(e, int):
                    t = self.T(e) if f.nodes[e]["k"] in ("MemberExpr", "DeclRefExpr") else None
                    if t in self.cur:
                        touch.add((b["id"], i))
        for p in sorted(touch):
            if p in adv:
                continue
            path = f.find_path(p, {p}, avoid=adv)
            if path is not None:
                path = self._flag_feasible_cycle(p, adv)
            if path is not None:
                return path
        return None

    def _flag_feasible_cycle(self, p, adv):
        """a cycle through p that avoids `adv` and is consistent with the constants assigned to bool locals along it
        (`for(bool more = true; more;) { ... else more = false; }` - the iteration that clears the flag is the last one)"""
        from collections import deque
        from . import fin
        f = self.f
        bools = set()
        for n in f.nodes:
            if n["k"] == "DeclStmt":
                for d in n["decls"]:
                    if (d.get("t") or "").replace("const ", "").strip() == "bool":
                        bools.add(d["n"])
        if not bools:
            return f.find_path(p, {p}, avoid=adv)

        def step_flags(fl, pos):
            b, i = pos
            blk = f.blocks[b]
            if i >= len(blk["el"]) or not isinstance(blk["el"][i], int):
                return fl
            n = f.nodes[blk["el"][i]]
            upd = []
            if n["k"] == "DeclStmt":
                upd = [(d["n"], d.get("init")) for d in n["decls"] if d["n"] in bools]
            elif n["k"] == "BinaryOperator" and n.get("op") == "=":
                l = f.nodes[f.strip(n["c"][0])]
                if l["k"] == "DeclRefExpr" and l["ref"]["n"] in bools:
                    upd = [(l["ref"]["n"], n["c"][1])]
            elif n["k"] == "CompoundAssignOperator":
                l = f.nodes[f.strip(n["c"][0])]
                if l["k"] == "DeclRefExpr" and l["ref"]["n"] in bools:
                    upd = [(l["ref"]["n"], None)]
            if not upd:
                return fl
            d_ = dict(fl)
            for nm, rhs in upd:
                v = fin.eval_expr(f, rhs, {}) if rhs is not None else None
                if v is None:
                    d_.pop(nm, None)
                else:
                    d_[nm] = bool(v)
            return frozenset(d_.items())
        start = (p, frozenset())
        prev = {}
        dq = deque()
        for s_ in f.succs_pos(p):
            pass
        dq.append(start)
        seen = {start}
        first = True
        while dq:
            pos, fl = dq.popleft()
            if pos == p and not first:
                out = [pos]
                cur = (pos, fl)
                for _ in range(100000):
                    if cur not in prev:
                        break
                    cur = prev[cur]
                    out.append(cur[0])
                    if cur == start:
                        break
                return list(reversed(out))
            nfl = step_flags(fl, pos) if (first or pos != p) else fl
            first = False
            b, i = pos
            blk = f.blocks[b]
            at_end = i >= len(blk["el"])
            for nx in f.succs_pos(pos):
                if nx in adv:
                    continue
                efl = nfl
                if nx[0] != b or at_end:
                    c = blk.get("cond")
                    if c is not None and len(blk["succ"]) == 2 and blk.get("tk") != "SwitchStmt" and blk["succ"][0] != blk["succ"][1] and nx[0] in blk["succ"]:
                        truth = blk["succ"][0] == nx[0]
                        d_ = dict(efl)
                        ok = True
                        for an, tr in q.cond_atoms(f, c, truth):
                            nn = f.nodes[f.strip(an)]
                            if nn["k"] == "DeclRefExpr" and nn["ref"]["n"] in bools:
                                if nn["ref"]["n"] in d_ and d_[nn["ref"]["n"]] != tr:
                                    ok = False
                                d_[nn["ref"]["n"]] = tr
                        if not ok:
                            continue
                        efl = frozenset(d_.items())
                st = (nx, efl)
                if st in seen and not (nx == p):
                    continue
                if st not in seen:
                    prev[st] = (pos, fl)
                    seen.add(st)
                    dq.append(st)
                elif nx == p:
                    prev.setdefault(st, (pos, fl))
                    dq.append(st)
        return None
