"""Fact loader for the static checkers.

Runs the libTooling front end (build/nstd_extract) over every library unit of
/repo and over the witness instantiation unit, and offers per-function views:
AST nodes, CFG, positions, dominators, path queries and a canonical expression
renderer.  Nothing of libnstd is executed.
"""
import copy
import hashlib
import json
import os
import subprocess
import sys
import time
from concurrent.futures import ThreadPoolExecutor

VERIF = os.path.dirname(os.path.dirname(os.path.abspath(__file__)))
REPO = os.environ.get("NSTD_REPO", "/repo")
EXTRACT = os.path.join(VERIF, "build", "nstd_extract")
CACHE = os.path.join(VERIF, "build", "cache")
WITNESS = os.path.join(VERIF, "witness")


class AnalysisBroken(Exception):
    """Anchor vanished / unit failed to parse / instance floor not met (exit 2)."""


# --------------------------------------------------------------------------- units

def library_units(repo=REPO):
    units = []
    for root, _dirs, files in os.walk(os.path.join(repo, "src")):
        for f in sorted(files):
            if f.endswith(".cpp"):
                units.append(os.path.join(root, f))
    return sorted(units)


def compile_flags(repo=REPO, ndebug=True):
    """Flags of the real build (taken from build.ninja when present), -std made explicit."""
    flags = ["-I" + os.path.join(repo, "include"), "-std=gnu++17", "-O2"]
    bn = os.path.join(repo, "_build", "build.ninja")
    defs = set()
    if os.path.exists(bn):
        try:
            out = subprocess.run(["ninja", "-C", os.path.join(repo, "_build"), "-t", "compdb"],
                                 capture_output=True, text=True, timeout=60).stdout
            for e in json.loads(out):
                if e.get("file", "").endswith(".cpp") and "/src/" in e["file"]:
                    for tok in e["command"].split():
                        if tok.startswith("-D"):
                            defs.add(tok)
        except Exception:
            pass
    else:
        defs.add("-DNDEBUG")
    if ndebug:
        defs.add("-DNDEBUG")
    else:
        defs.discard("-DNDEBUG")
        flags.append("-UNDEBUG")
    flags += sorted(defs)
    flags += ["-Wno-everything", "-ferror-limit=0"]
    return flags


def _tree_hash(repo, extra_files):
    h = hashlib.sha256()
    paths = []
    for sub in ("include", "src"):
        for root, _d, files in os.walk(os.path.join(repo, sub)):
            for f in files:
                paths.append(os.path.join(root, f))
    paths += extra_files
    paths.append(EXTRACT)
    for p in sorted(paths):
        h.update(p.encode())
        try:
            with open(p, "rb") as fh:
                h.update(fh.read())
        except OSError:
            h.update(b"<missing>")
    return h.hexdigest()[:24]


def _run_extract(src, out, flags, headers, roots):
    cmd = [EXTRACT, "--out=" + out] + ["--root=" + r for r in roots]
    if headers:
        cmd.append("--headers")
    cmd += [src, "--"] + flags
    p = subprocess.run(cmd, capture_output=True, text=True)
    return p.returncode, p.stderr


def ensure_extractor():
    if not os.path.exists(EXTRACT):
        subprocess.run([os.path.join(VERIF, "tools", "build.sh")], check=True)
    if not os.path.exists(EXTRACT):
        raise AnalysisBroken("front end build/nstd_extract missing (run MANIFEST.setup_cmd)")


class Program:
    def __init__(self):
        self.functions = {}   # sig -> Function
        self.records = {}     # tname -> record dict
        self.globals = {}     # qualified name -> global variable with the literals of its initialiser
        self.diags = []       # (unit, diag)
        self.units = []
        self.errors = []
        self.config = ""
        self.t_extract = 0.0

    # -- lookup helpers
    def fns(self, pred):
        return [f for f in self.functions.values() if pred(f)]

    def by_name(self, qname, cls_prefix=None):
        """functions whose template-free qualified name equals qname"""
        return [f for f in self.functions.values() if f.name == qname]

    def one(self, qname, nparams=None, param_sub=None, const=None):
        c = self.by_name(qname)
        if nparams is not None:
            c = [f for f in c if len(f.params) == nparams]
        if param_sub is not None:
            c = [f for f in c if any(param_sub in p["t"] for p in f.params)]
        if const is not None:
            c = [f for f in c if f.d.get("const") == const]
        return c

    def need(self, qname, **kw):
        c = self.one(qname, **kw)
        if not c:
            raise AnalysisBroken("anchor function not found: %s %r" % (qname, kw))
        return c


def load_program(repo=REPO, ndebug=True, witness_units=("instantiate.cpp",), verbose=False, cache=True, inline_helpers=True):
    ensure_extractor()
    t0 = time.time()
    flags = compile_flags(repo, ndebug)
    wit = [os.path.join(WITNESS, w) for w in witness_units]
    extra = []
    for root, _d, files in os.walk(WITNESS):
        for f in files:
            extra.append(os.path.join(root, f))
    key = _tree_hash(repo, extra) + ("-nd" if ndebug else "-dbg")
    cdir = os.path.join(CACHE, key)
    tmp_cache = None
    if not cache:
        import tempfile
        tmp_cache = tempfile.mkdtemp(prefix="nstd-verif-facts-", dir=os.environ.get("TMPDIR") or "/var/tmp")
        cdir = tmp_cache
    os.makedirs(cdir, exist_ok=True)
    units = [(u, False) for u in library_units(repo)] + [(w, True) for w in wit]
    if len(units) - len(wit) < 20:
        raise AnalysisBroken("only %d library units found under %s/src" % (len(units) - len(wit), repo))
    jobs = []
    for src, headers in units:
        out = os.path.join(cdir, src.replace("/", "_") + ".json")
        jobs.append((src, out, headers))

    def work(job):
        src, out, headers = job
        if os.path.exists(out) and os.path.getsize(out) > 0:
            return src, out, 0, ""
        tmp = out + ".tmp%d" % os.getpid()
        fl = list(flags)
        if headers:
            fl.append("-I" + WITNESS)
        rc, err = _run_extract(src, tmp, fl, headers, [repo, WITNESS])
        if os.path.exists(tmp):
            os.replace(tmp, out)
        return src, out, rc, err

    prog = Program()
    prog.repo, prog.ndebug, prog.cache = repo, ndebug, cache
    raw = {}
    prog.config = "NDEBUG" if ndebug else "DEBUG"
    with ThreadPoolExecutor(max_workers=16) as ex:
        results = list(ex.map(work, jobs))
    for src, out, rc, err in results:
        if not os.path.exists(out):
            raise AnalysisBroken("front end produced no output for %s: %s" % (src, err[-400:]))
        with open(out) as fh:
            d = json.load(fh)
        prog.units.append(src)
        for dg in d.get("diags", []):
            prog.diags.append((src, dg))
            if dg["level"] == "error":
                prog.errors.append((src, dg))
        for r in d["records"]:
            prog.records.setdefault(r["tname"], r)
        for g in d.get("globals", []):
            prog.globals.setdefault(g["name"], g)
        for f in d["functions"]:
            raw.setdefault(f["sig"], f)
    # helpers the rule set has never seen are spliced into their callers (engine/inline.py)
    from . import inline
    prog.inlined = []
    gone = inline.inline_program(raw, log=prog.inlined) if inline_helpers else set()
    if inline_helpers:
        inline.dealias_new_references(raw)
        inline.collapse_deref_members(raw)
        inline.dealias_new_snapshots(raw, lambda d_: Function(copy.deepcopy(d_), prog))
    for sig, f in raw.items():
        if sig in gone:
            continue
        prog.functions[sig] = Function(f, prog)
    prog.t_extract = time.time() - t0
    # keep the cache small: the current key plus the two most recently used others
    try:
        if tmp_cache:
            subprocess.run(["rm", "-rf", tmp_cache])
        else:
            os.utime(cdir, None)
            others = sorted((k for k in os.listdir(CACHE) if k != key), key=lambda k: os.path.getmtime(os.path.join(CACHE, k)), reverse=True)
            for k in others[2:]:
                subprocess.run(["rm", "-rf", os.path.join(CACHE, k)])
    except OSError:
        pass
    return prog


# --------------------------------------------------------------------------- function view

TRANSPARENT = {"ImplicitCastExpr", "ParenExpr", "ExprWithCleanups", "MaterializeTemporaryExpr",
               "CXXBindTemporaryExpr", "ConstantExpr", "CXXDefaultArgExpr"}


TAG_GETTERS = ("Variant::getType", "Xml::Variant::getType")


class Function:
    def __init__(self, d, prog):
        self.d = d
        self.prog = prog
        self.sig = d["sig"]
        self.name = d["name"]
        self.gname = _strip_targs(d["name"])      # qualified name without any template arguments
        self.tname = d["tname"]
        self.short = d["short"]
        self.cls = d.get("cls")
        self.clsq = d.get("clsq")
        self.file = d["file"]
        self.line = d["line"]
        self.params = d["params"]
        self.kind = d["kind"]
        self.nodes = d["nodes"]
        self.parent = {}
        for n in self.nodes:
            for c in n["c"]:
                if c >= 0:
                    self.parent[c] = n["i"]
        cfg = d.get("cfg")
        self.blocks = {}
        self.pos = {}            # node id -> (block, idx)
        self.entry = self.exit = None
        if cfg:
            self.entry, self.exit = cfg["entry"], cfg["exit"]
            for b in cfg["blocks"]:
                els = []
                for e in b["el"]:
                    if isinstance(e, int):
                        els.append(e)
                    elif "s" in e:
                        els.append(e["s"])
                    else:
                        els.append(e)
                b["el"] = els
                self.blocks[b["id"]] = b
                if "term" in b and isinstance(b["term"], int) and b.get("tk") in ("GotoStmt", "BreakStmt", "ContinueStmt", "ReturnStmt"):
                    self.pos.setdefault(b["term"], (b["id"], len(els)))
                for i, e in enumerate(els):
                    if isinstance(e, int):
                        self.pos.setdefault(e, (b["id"], i))
                    elif "e" in e and isinstance(e.get("e"), int) and e["e"] >= 0:
                        self.pos.setdefault(("init", e["e"]), (b["id"], i))
            # the block that ends an `a && b` / `a || b` condition carries the whole expression as terminator condition,
            # although only the right operand is evaluated there: narrow it to what this block decides
            for b in self.blocks.values():
                c = b.get("cond")
                els = set(e for e in b["el"] if isinstance(e, int))
                guard = 0
                while isinstance(c, int) and guard < 20:
                    guard += 1
                    x = c
                    while self.nodes[x]["k"] in TRANSPARENT and self.nodes[x]["c"]:
                        x = self.nodes[x]["c"][0]
                    n = self.nodes[x]
                    if n["k"] == "BinaryOperator" and n.get("op") in ("&&", "||") and len(n["c"]) == 2:
                        lhs = n["c"][0]
                        while self.nodes[lhs]["k"] in TRANSPARENT and self.nodes[lhs]["c"]:
                            lhs = self.nodes[lhs]["c"][0]
                        if lhs not in els and n["c"][0] not in els:
                            c = n["c"][1]
                            continue
                    break
                if isinstance(c, int) and c != b.get("cond"):
                    b["cond_full"] = b["cond"]
                    b["cond"] = c
            self.preds = {b: [] for b in self.blocks}
            for b in self.blocks.values():
                for s in b["succ"]:
                    if s is not None:
                        self.preds[s].append(b["id"])
        self._dom = None
        self._pdom = None
        self._render = {}

    def __repr__(self):
        return "<Function %s>" % self.sig

    # -- tree helpers
    def n(self, i):
        return self.nodes[i]

    def kids(self, i):
        return [c for c in self.nodes[i]["c"] if c >= 0]

    def strip(self, i):
        """skip transparent wrappers downwards"""
        while i is not None and i >= 0:
            n = self.nodes[i]
            if n["k"] in TRANSPARENT and n["c"]:
                i = n["c"][0]
                continue
            if n["k"] == "CXXConstructExpr" and n.get("elidable") and len(n["c"]) == 1:
                i = n["c"][0]
                continue
            break
        return i

    def up(self, i):
        """skip transparent wrappers upwards: returns the nearest non-transparent ancestor"""
        p = self.parent.get(i)
        while p is not None and self.nodes[p]["k"] in TRANSPARENT:
            p = self.parent.get(p)
        return p

    def desc(self, i, include_self=True):
        out = []
        stack = [i]
        while stack:
            x = stack.pop()
            if x < 0:
                continue
            if x != i or include_self:
                out.append(x)
            stack.extend(reversed(self.nodes[x]["c"]))
        return out

    def all_nodes(self):
        return self.nodes

    def where(self, i):
        n = self.nodes[i] if isinstance(i, int) else i
        return "%s:%s" % (n.get("f", self.file), n.get("l", self.line))

    def find(self, pred, root=None):
        ids = self.desc(root) if root is not None else range(len(self.nodes))
        return [i for i in ids if pred(self.nodes[i])]

    # -- rendering
    def r(self, i):
        """canonical text of an expression/statement (resolved AST, not source text)"""
        if i is None or i < 0:
            return ""
        if i in self._render:
            return self._render[i]
        n = self.nodes[i]
        k = n["k"]
        c = n["c"]
        R = self.r
        if k in TRANSPARENT and c:
            s = R(c[0])
        elif k == "DeclRefExpr":
            s = n["ref"].get("q") if n["ref"]["dk"] in ("global", "static_member", "func", "enumconst") else n["ref"]["n"]
            s = s or n["ref"]["n"]
        elif k == "CXXThisExpr":
            s = "this"
        elif k == "MemberExpr":
            s = R(c[0]) + ("->" if n.get("arrow") else ".") + n["m"] if c else n["m"]
        elif k in ("BinaryOperator", "CompoundAssignOperator"):
            s = "(%s %s %s)" % (R(c[0]), n["op"], R(c[1]))
        elif k == "UnaryOperator":
            s = None
            if n.get("op") == "&" and not n.get("post") and c:
                # `&*p` (what de-aliasing a reference bound to `*p` leaves behind for `&ref`) designates p
                x_ = self.nodes[c[0]]
                while x_["k"] in ("ParenExpr", "ImplicitCastExpr") and x_.get("c"):
                    x_ = self.nodes[x_["c"][0]]
                if x_["k"] == "UnaryOperator" and x_.get("op") == "*" and not x_.get("post") and x_.get("c"):
                    s = R(x_["c"][0])
            if s is None:
                s = (R(c[0]) + n["op"]) if n.get("post") else (n["op"] + R(c[0]))
        elif k in ("IntegerLiteral", "CXXBoolLiteralExpr"):
            s = str(n["v"])
        elif k == "CharacterLiteral":
            v = n["v"]
            s = "'%s'" % (chr(v) if 32 <= v < 127 and v not in (39, 92) else "\\x%02x" % v)
        elif k == "StringLiteral":
            s = '"' + "".join(chr(b) if 32 <= b < 127 and b not in (34, 92) else "\\x%02x" % b for b in n.get("bytes", [])) + '"'
        elif k == "FloatingLiteral":
            s = "<float>"
        elif k in ("CStyleCastExpr", "CXXStaticCastExpr", "CXXReinterpretCastExpr", "CXXConstCastExpr", "CXXFunctionalCastExpr"):
            s = "(%s)%s" % (n["t"], R(c[0]) if c else "")
        elif k == "ArraySubscriptExpr":
            s = "%s[%s]" % (R(c[0]), R(c[1]))
        elif k == "CXXMemberCallExpr":
            s = "%s(%s)" % (R(c[0]), ", ".join(R(x) for x in c[1:]))
            if len(c) == 1 and n.get("callee") in TAG_GETTERS and s.endswith("getType()"):
                # the tag accessor reads as the tag it returns (rule C07.j / C16 decide that it does): `other.getType()` is `other.data->type`
                s = s[:-len("getType()")] + "data->type"
        elif k == "CXXOperatorCallExpr":
            op = n.get("oop", "?")
            args = c[1:]
            if op == "()":
                s = "%s(%s)" % (R(args[0]), ", ".join(R(x) for x in args[1:]))
            elif op == "[]":
                s = "%s[%s]" % (R(args[0]), R(args[1]))
            elif op == "->":
                s = R(args[0]) + ".operator->()"
            elif len(args) == 1:
                s = op + R(args[0])
            elif len(args) == 2 and op in ("++", "--"):
                s = R(args[0]) + op
            elif len(args) == 2:
                s = "(%s %s %s)" % (R(args[0]), op, R(args[1]))
            else:
                s = "operator%s(%s)" % (op, ", ".join(R(x) for x in args))
        elif k == "CallExpr":
            s = "%s(%s)" % (R(c[0]), ", ".join(R(x) for x in c[1:]))
        elif k in ("CXXConstructExpr", "CXXTemporaryObjectExpr"):
            if n.get("elidable") and len(c) == 1:
                s = R(c[0])
            elif n.get("copyctor") and len(c) == 1 and k == "CXXConstructExpr":
                s = "copy(%s)" % R(c[0])
            else:
                s = "%s(%s)" % (n["t"], ", ".join(R(x) for x in c))
        elif k == "CXXNewExpr":
            nplace = n.get("placement", 0)
            kids = list(c)
            # children order: [array size]? placement args..., initializer
            parts = [R(x) for x in kids]
            s = "new%s %s%s{%s}" % ("(placement)" if nplace else "", n.get("alloct", ""), "[]" if n.get("arr") else "", ", ".join(parts))
        elif k == "CXXDeleteExpr":
            s = "delete%s %s" % ("[]" if n.get("arr") else "", R(c[0]))
        elif k == "ConditionalOperator":
            s = "(%s ? %s : %s)" % (R(c[0]), R(c[1]), R(c[2]))
        elif k == "UnaryExprOrTypeTraitExpr":
            s = "sizeof(%s)" % n.get("argt", "")
        elif k == "CXXPseudoDestructorExpr":
            s = R(c[0]) + ("->" if n.get("arrow") else ".") + "~" + n.get("destroyed", "")
        elif k == "ReturnStmt":
            s = "return " + (R(c[0]) if c else "")
        elif k == "DeclStmt":
            s = "; ".join("%s %s%s" % (d["t"], d["n"], (" = " + R(d["init"])) if "init" in d else "") for d in n["decls"])
        elif k == "CXXNullPtrLiteralExpr" or k == "GNUNullExpr":
            s = "0"
        elif k == "CXXScalarValueInitExpr":
            s = "%s()" % n["t"]
        elif k == "InitListExpr":
            s = "{%s}" % ", ".join(R(x) for x in c)
        elif k == "GotoStmt":
            s = "goto " + n.get("label", "")
        elif k == "LabelStmt":
            s = n.get("label", "") + ":"
        elif k == "CaseStmt":
            s = "case %s:" % n.get("v")
        elif k == "DefaultStmt":
            s = "default:"
        elif k == "BreakStmt":
            s = "break"
        elif k == "ContinueStmt":
            s = "continue"
        elif k == "ImplicitValueInitExpr":
            s = "%s()" % n.get("t", "")
        elif k == "PredefinedExpr":
            s = "__func__"
        elif k == "VAArgExpr":
            s = "va_arg(%s)" % R(c[0])
        else:
            s = "<%s>" % k
        self._render[i] = s
        return s

    # -- CFG helpers
    def el_node(self, e):
        """AST node id of a CFG element (or None for implicit elements)"""
        if isinstance(e, int):
            return e
        return None

    def positions(self, pred):
        """positions (block, idx, node id) of CFG statement elements whose node satisfies pred"""
        out = []
        for b in self.blocks.values():
            for i, e in enumerate(b["el"]):
                if isinstance(e, int) and pred(self.nodes[e]):
                    out.append((b["id"], i, e))
        return out

    def succs_pos(self, p):
        b, i = p
        blk = self.blocks[b]
        if i < len(blk["el"]):
            return [(b, i + 1)]
        return [(s, 0) for s in blk["succ"] if s is not None]

    def reach(self, starts, avoid=frozenset(), block_edges_removed=frozenset()):
        """set of positions reachable from the given positions (inclusive) without entering a
        position in `avoid`; positions are (block, idx), idx == len(el) is the block end."""
        seen = set()
        stack = [p for p in starts if p not in avoid]
        while stack:
            p = stack.pop()
            if p in seen:
                continue
            seen.add(p)
            b, i = p
            blk = self.blocks[b]
            if i < len(blk["el"]):
                nxt = [(b, i + 1)]
            else:
                nxt = [(s, 0) for s in blk["succ"] if s is not None and (b, s) not in block_edges_removed]
            for q in nxt:
                if q not in seen and q not in avoid:
                    stack.append(q)
        return seen

    def exit_pos(self):
        return (self.exit, 0)

    def entry_pos(self):
        return (self.entry, 0)

    def path_exists(self, src, dst, avoid=frozenset(), after_src=True):
        """is there a CFG path from just after position src (or from src) to position dst
        that touches no position in avoid?"""
        starts = self.succs_pos(src) if after_src else [src]
        return dst in self.reach(starts, avoid)

    def find_path(self, src, dst_set, avoid=frozenset(), after_src=True):
        """a witness path (list of positions) or None"""
        starts = self.succs_pos(src) if after_src else [src]
        prev = {}
        from collections import deque
        dq = deque()
        for s in starts:
            if s not in avoid:
                prev[s] = None
                dq.append(s)
        while dq:
            p = dq.popleft()
            if p in dst_set:
                path = []
                while p is not None:
                    path.append(p)
                    p = prev[p]
                return list(reversed(path))
            for q in self.succs_pos(p):
                if q not in prev and q not in avoid:
                    prev[q] = p
                    dq.append(q)
        return None

    def path_lines(self, path):
        """source lines touched by a witness path (for diagnostics)"""
        lines = []
        for b, i in path:
            blk = self.blocks[b]
            if i < len(blk["el"]) and isinstance(blk["el"][i], int):
                l = self.nodes[blk["el"][i]].get("l")
                if l and (not lines or lines[-1] != l):
                    lines.append(l)
        return lines

    # dominators at block level
    def dom(self):
        if self._dom is None:
            self._dom = _dominators(self.blocks, self.entry, lambda b: [s for s in self.blocks[b]["succ"] if s is not None], self.preds)
        return self._dom

    def dominates_pos(self, a, b):
        """position a dominates position b"""
        if a[0] == b[0]:
            return a[1] <= b[1]
        return a[0] in self.dom().get(b[0], set())

    def node_pos(self, i):
        """CFG position of a node (nearest enclosing node that is a CFG element)"""
        x = i
        while x is not None:
            if x in self.pos:
                return self.pos[x]
            x = self.parent.get(x)
        return None

    def branch_edges(self, cond_pred):
        """for every block whose terminator condition node satisfies cond_pred:
        (block, cond node, true successor, false successor)"""
        out = []
        for b in self.blocks.values():
            c = b.get("cond")
            if c is None or len(b["succ"]) != 2:
                continue
            if b.get("tk") in ("SwitchStmt",):
                continue
            if cond_pred(c):
                out.append((b["id"], c, b["succ"][0], b["succ"][1]))
        return out

    def edge_dominates(self, edge, p):
        """every path entry -> p uses CFG edge (u, v)"""
        u, v = edge
        if v is None:
            return False
        r = self.reach([self.entry_pos()], block_edges_removed=frozenset([(u, v)]))
        return p not in r and p in self.reach([self.entry_pos()])

    def dump(self, out=sys.stdout, brief=False):
        out.write("== %s  [%s:%s]\n" % (self.sig, self.file, self.line))
        for bid in sorted(self.blocks, reverse=True):
            b = self.blocks[bid]
            tag = " ENTRY" if bid == self.entry else (" EXIT" if bid == self.exit else "")
            lab = ""
            if "label" in b:
                lab = " label=" + self.r(b["label"])
            out.write(" B%d%s%s succ=%s\n" % (bid, tag, lab, b["succ"]))
            inblock = set(e for e in b["el"] if isinstance(e, int))
            for i, e in enumerate(b["el"]):
                if isinstance(e, int):
                    n = self.nodes[e]
                    if brief:
                        p = self.parent.get(e)
                        while p is not None and p not in inblock:
                            p = self.parent.get(p)
                        if p is not None and self.nodes[p]["k"] not in ("CompoundStmt",):
                            continue
                    out.write("   %2d: [%d] %-22s %s   (l.%s)\n" % (i, e, n["k"], self.r(e)[:150], n.get("l")))
                else:
                    out.write("   %2d: %s\n" % (i, json.dumps(e)))
            if "term" in b:
                out.write("    T: %s cond=%s\n" % (b.get("tk"), self.r(b["cond"]) if "cond" in b else None))


def _strip_targs(s):
    out, depth, i = [], 0, 0
    while i < len(s):
        if s.startswith("operator", i):
            j = i + 8
            while j < len(s) and s[j] in "<>=-!+*/%&|^~[]()":
                j += 1
            if depth == 0:
                out.append(s[i:j])
            i = j
            continue
        c = s[i]
        if c == "<":
            depth += 1
        elif c == ">" and depth > 0:
            depth -= 1
        elif depth == 0:
            out.append(c)
        i += 1
    return "".join(out)


def _dominators(blocks, entry, succ, preds):
    ids = list(blocks)
    # restrict to reachable
    reach = set()
    st = [entry]
    while st:
        x = st.pop()
        if x in reach:
            continue
        reach.add(x)
        st.extend(succ(x))
    dom = {b: set(reach) for b in reach}
    dom[entry] = {entry}
    changed = True
    order = sorted(reach, reverse=True)
    while changed:
        changed = False
        for b in order:
            if b == entry:
                continue
            ps = [p for p in preds[b] if p in reach]
            if not ps:
                continue
            new = set.intersection(*[dom[p] for p in ps]) | {b}
            if new != dom[b]:
                dom[b] = new
                changed = True
    return dom
