"""Checker self-validation (thorough tier): every seeded change / pre-fix mutant that belongs to the property is applied to a
scratch copy of /repo's CURRENT include/ and src/ (never to /repo or /verif), re-extracted, and the property's rules must report
at least one violation on it.  A patch that no longer applies to the current sources is reported as skipped."""
import glob
import importlib
import json
import os
import shutil
import subprocess
import tempfile

from . import facts, report

VERIF = facts.VERIF
BLIND = {}


def corpus(pid):
    out = []
    # seeded/INDEX.json (written by tools/run_seeds.sh) says which seeded changes the quick check of their property reports; only
    # those are must-fire.  The others are documented blind spots (DESIGN.md section 11) and are listed in the evidence, not hidden.
    try:
        index = json.load(open(os.path.join(VERIF, "seeded", "INDEX.json")))
    except Exception:
        index = {}
    for meta in sorted(glob.glob(os.path.join(VERIF, "seeded", "*", "meta.json"))):
        d = os.path.dirname(meta)
        st = index.get(os.path.basename(d), {}).get("status")
        if not str(st).startswith("detected"):
            if (index.get(os.path.basename(d), {}).get("property") or os.path.basename(d)[:3]) == pid:
                BLIND.setdefault(pid, []).append("seeded/" + os.path.basename(d) + (" (not yet triaged)" if st is None else ""))
            continue
        try:
            m = json.load(open(meta))
        except Exception:
            m = {}
        prop = m.get("property") or os.path.basename(d)[:3]
        if prop == pid and os.path.exists(os.path.join(d, "patch.diff")):
            out.append(("seeded/" + os.path.basename(d), os.path.join(d, "patch.diff")))
    idx = os.path.join(VERIF, "selftest", "mutants", "INDEX.json")
    if os.path.exists(idx):
        for name, props in sorted(json.load(open(idx)).items()):
            if pid in props:
                out.append(("selftest/mutants/" + name, os.path.join(VERIF, "selftest", "mutants", name)))
    return out


def run(pid, chk, repo=facts.REPO):
    BLIND.pop(pid, None)
    items = corpus(pid)
    res = {"applied": 0, "detected": 0, "skipped": [], "missed": [], "details": [], "blind_spots": sorted(set(BLIND.get(pid, [])))}
    if not items:
        chk.extra["selftest"] = res
        return res
    mod = importlib.import_module("engine.props." + pid.lower())
    base = os.environ.get("TMPDIR") or "/var/tmp"
    for name, patch in items:
        scratch = tempfile.mkdtemp(prefix="nstd-verif-selftest-", dir=base)
        try:
            for sub in ("include", "src"):
                shutil.copytree(os.path.join(repo, sub), os.path.join(scratch, sub))
            p = subprocess.run(["patch", "-p1", "-s", "-f", "-d", scratch, "-i", patch], capture_output=True, text=True)
            if p.returncode != 0:
                res["skipped"].append(name)
                continue
            res["applied"] += 1
            sub_chk = report.Check(pid, chk.tier)
            try:
                prog = facts.load_program(repo=scratch, ndebug=True, cache=False)
                try:
                    mod.run(prog, sub_chk)
                except facts.AnalysisBroken as e:
                    sub_chk.broke(str(e))
                if hasattr(mod, "run_thorough"):
                    mod.run_thorough(prog, sub_chk)
            except facts.AnalysisBroken as e:
                sub_chk.broke(str(e))
            # known findings do not count: only violations that would be reported as new
            known = set((e.get("rule"), e.get("function"), e.get("tag")) for e in sub_chk._known())
            new = [k for k in sub_chk.viol if k not in known]
            if new:
                res["detected"] += 1
                res["details"].append({"change": name, "reported": "%s %s in %s" % (new[0][0], new[0][2], new[0][1])})
            else:
                res["missed"].append(name)
        finally:
            shutil.rmtree(scratch, ignore_errors=True)
            # drop the cached facts of the scratch tree
    chk.extra["selftest"] = res
    return res
