"""Balanced counters: a member that is both incremented and decremented by the functions of one class (a nesting depth, a count of
pending items) must change by the same amount on every successful path of each function - otherwise it drifts with the shape of the
input.  Net effects are computed per function over its acyclic paths (callee summaries for the functions of the same class, fixpoint
over the call graph); every loop is checked separately: one trip round it must leave the counter where it was."""
import re
from . import q, fin

CAP = 4


def counter_fields(fs):
    """{field text: {function sig: [(node, delta)]}} for integer members of `this` that some function raises and some function lowers"""
    ev = {}
    for f in fs:
        for st in q.stores(f):
            l = f.nodes[st.lhs]
            if l["k"] != "MemberExpr" or not l["c"] or f.nodes[f.strip(l["c"][0])]["k"] != "CXXThisExpr":
                continue
            t = (l.get("t") or "")
            if not re.search(r"\bint\b|\blong\b|\bunsigned\b|\bshort\b|usize|ssize|uint", t) or "*" in t:
                continue
            d = None
            if st.op == "++":
                d = 1
            elif st.op == "--":
                d = -1
            elif st.op in ("+=", "-=") and st.rhs is not None:
                v = fin.eval_expr(f, st.rhs, {})
                if isinstance(v, int) and 0 < v <= 2:
                    d = v if st.op == "+=" else -v
            if d is None:
                continue
            ev.setdefault(q.no_casts(f.r(st.lhs)), {}).setdefault(f.sig, []).append((st.node, d))
    out = {}
    for fld, per in ev.items():
        signs = set(1 if d > 0 else -1 for evs in per.values() for _n, d in evs)
        if signs == {1, -1}:
            out[fld] = per
    return out


def _success_exits(f):
    """positions of the returns that do not report failure (constant false / 0)"""
    out = []
    for i, n in enumerate(f.nodes):
        if n["k"] == "ReturnStmt" and f.node_pos(i) is not None:
            v = fin.eval_expr(f, n["c"][0], {}) if n["c"] else None
            if n["c"] and v == 0:
                continue
            out.append(f.node_pos(i))
    return out


def net_effects(f, events, summaries, by_sig):
    """set of net deltas over the acyclic entry -> successful-exit paths of f; None when too many paths"""
    ev_pos = {}
    for node, d in events:
        p = f.node_pos(node)
        if p is not None:
            ev_pos.setdefault(p, []).append(d)
    for c in q.calls(f):
        n = f.nodes[c]
        sig = n.get("csig")
        if sig in summaries and f.node_pos(c) is not None:
            ev_pos.setdefault(f.node_pos(c), []).append(("call", sig))
    exits = set(_success_exits(f))
    void = not any(n["k"] == "ReturnStmt" and n["c"] for n in f.nodes)
    if void:
        exits.add(f.exit_pos())
    results = set()
    budget = [20000]

    def options(p):
        ds = [0]
        for e in ev_pos.get(p, []):
            if isinstance(e, tuple):
                # least fixpoint: a callee without a known successful path yet blocks this path (it is found in a later round)
                ds = [a + b for a in ds for b in summaries.get(e[1], {0})]
            else:
                ds = [a + e for a in ds]
        return set(max(-CAP, min(CAP, x)) for x in ds)

    seen_states = set()
    stack = [(f.entry_pos(), 0, frozenset())]
    while stack:
        p, acc, onpath = stack.pop()
        budget[0] -= 1
        if budget[0] < 0:
            return None
        for d in options(p):
            a2 = max(-CAP, min(CAP, acc + d))
            if p in exits:
                results.add(a2)
                if not void:
                    continue
            if p == f.exit_pos():
                continue
            for nx in f.succs_pos(p):
                if nx in onpath:
                    continue        # back edge: loops are checked on their own
                key = (nx, a2)
                if key in seen_states:
                    continue
                seen_states.add(key)
                stack.append((nx, a2, onpath | {p}) if len(onpath) < 400 else (nx, a2, onpath))
    return results


def loop_drift(f, events, summaries):
    """[(head block, delta)] for loops one trip round which changes the counter"""
    ev_pos = {}
    for node, d in events:
        p = f.node_pos(node)
        if p is not None:
            ev_pos.setdefault(p, []).append(d)
    for c in q.calls(f):
        sig = f.nodes[c].get("csig")
        if sig in summaries and summaries[sig] and f.node_pos(c) is not None:
            ev_pos.setdefault(f.node_pos(c), []).append(("call", sig))
    out = []
    heads = [b for b in f.blocks if any(p_ for p_ in f.preds.get(b, []) if (b, 0) in f.reach(f.succs_pos((b, len(f.blocks[b]["el"]))))) and
             (b, 0) in f.reach(f.succs_pos((b, len(f.blocks[b]["el"]))))]
    for h in heads:
        # all delta sums over simple paths from the head back to the head
        start = (h, 0)
        seen = set()
        stack = [(start, 0, 0)]
        found = set()
        steps = 0
        while stack and steps < 20000:
            p, acc, depth = stack.pop()
            steps += 1
            ds = [0]
            for e in ev_pos.get(p, []):
                if isinstance(e, tuple):
                    ds = [a + b for a in ds for b in (summaries.get(e[1]) or {0})]
                else:
                    ds = [a + e for a in ds]
            for d in set(ds):
                a2 = max(-CAP, min(CAP, acc + d))
                for nx in f.succs_pos(p):
                    if nx == start:
                        found.add(a2)
                        continue
                    if (nx, a2) in seen or depth > 600:
                        continue
                    seen.add((nx, a2))
                    stack.append((nx, a2, depth + 1))
        for d in found:
            if d != 0:
                out.append((h, d))
    return out


def check(prog, chk, rid, fs, what):
    chk.rule(rid, "PAIRF (net-effect dataflow with callee summaries): a member counter that the %s functions both raise and lower changes "
                  "by one and the same amount on every successful path of each function, and by nothing round any loop" % what, floor=0)
    fs = [f for f in fs if f.blocks]
    counters = counter_fields(fs)
    by_sig = {f.sig: f for f in fs}
    if not counters:
        chk.ok(rid, what, "no member counter is both raised and lowered by the %d %s functions" % (len(fs), what), "", "scan of ++/--/+=/-= on members of this", nontrivial=False)
        return
    for fld, per in sorted(counters.items()):
        summaries = {f.sig: set() for f in fs}
        for _round in range(12):
            changed = False
            for f in fs:
                r = net_effects(f, per.get(f.sig, []), summaries, by_sig)
                if r is None:
                    r = {0}
                r = r | summaries[f.sig]
                if r != summaries[f.sig]:
                    summaries[f.sig] = r
                    changed = True
            if not changed:
                break
        touched = [f for f in fs if summaries[f.sig] - {0} or per.get(f.sig)]
        for f in touched:
            where = "%s:%s" % (f.file, f.line)
            if len(summaries[f.sig]) > 1:
                chk.bad(rid, f, "counter-not-balanced:" + fld.replace("this->", ""), where,
                        "`%s` changes by %s on different successful paths of this function: one exit forgets its update, the counter drifts with "
                        "the shape of the input (e.g. one level per empty container) until a limit test fails or never fires" % (
                            fld, sorted(summaries[f.sig])), evals=len(summaries[f.sig]) + 1)
                continue
            drift = loop_drift(f, per.get(f.sig, []), summaries)
            if drift:
                chk.bad(rid, f, "counter-drifts-in-loop:" + fld.replace("this->", ""), where,
                        "one trip round a loop of this function changes `%s` by %+d" % (fld, drift[0][1]), evals=2)
            else:
                chk.ok(rid, f, "`%s`: net effect %s on every successful path, none round loops" % (fld, sorted(summaries[f.sig])), where, "net-effect dataflow", evals=3)
