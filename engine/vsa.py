"""Value-set analysis for table indices (rule template VSA, byte domain exact).

A value set is a sorted list of disjoint closed intervals.  Index expressions are evaluated from
their types (char is signed on this target), casts, masks, shifts and arithmetic, then refined by the
branch facts that dominate the site (comparisons of the same expression with constants)."""
import re
from . import q, fin

TOP = [(-(1 << 63), (1 << 64) - 1)]


def norm(iv):
    iv = sorted((a, b) for a, b in iv if a <= b)
    out = []
    for a, b in iv:
        if out and a <= out[-1][1] + 1:
            out[-1] = (out[-1][0], max(out[-1][1], b))
        else:
            out.append((a, b))
    return out


def type_range(t):
    t = t.replace("const ", "").replace("volatile ", "").strip()
    if t in ("char", "signed char"):
        return [(-128, 127)]
    if t in ("unsigned char", "bool") or t == "byte":
        return [(0, 255)] if t != "bool" else [(0, 1)]
    if t in ("short",):
        return [(-32768, 32767)]
    if t in ("unsigned short",):
        return [(0, 65535)]
    if t in ("int",):
        return [(-(1 << 31), (1 << 31) - 1)]
    if t in ("unsigned int",):
        return [(0, (1 << 32) - 1)]
    if t in ("long", "long long"):
        return [(-(1 << 63), (1 << 63) - 1)]
    if t in ("unsigned long", "unsigned long long"):
        return [(0, (1 << 64) - 1)]
    return None


def small(iv, limit=70000):
    n = sum(b - a + 1 for a, b in iv)
    return n <= limit


def map_values(iv, fn):
    if small(iv):
        vals = set()
        for a, b in iv:
            for v in range(a, b + 1):
                vals.add(fn(v))
        return norm([(v, v) for v in vals])
    return None


def cast_to(iv, t):
    r = type_range(t)
    if r is None:
        return iv
    lo, hi = r[0]
    if all(lo <= a and b <= hi for a, b in iv):
        return iv
    width = hi - lo + 1
    m = map_values(iv, lambda v: ((v - lo) % width) + lo)
    return m if m is not None else r


class VSA:
    def __init__(self, f, prog=None):
        self.f = f
        self.prog = prog

    def ev(self, i, env=None):
        """value set of expression node i; env: text -> value set overrides (from dominating facts)"""
        f = self.f
        env = env or {}
        i0 = i
        n0 = f.nodes[i]
        # implicit/explicit casts matter (sign extension), so do not strip them blindly
        if n0["k"] in ("ParenExpr", "ExprWithCleanups", "MaterializeTemporaryExpr", "CXXBindTemporaryExpr", "ConstantExpr") and n0["c"]:
            return self.ev(n0["c"][0], env)
        t = q.no_casts(f.r(i))
        key = f.r(i)
        if key in env:
            return env[key]
        n = n0
        k = n["k"]
        if "cv" in n and k not in ("DeclRefExpr", "MemberExpr"):
            return [(n["cv"], n["cv"])]
        if k in ("IntegerLiteral", "CharacterLiteral", "CXXBoolLiteralExpr"):
            return [(n["v"], n["v"])]
        if k in ("ImplicitCastExpr", "CStyleCastExpr", "CXXStaticCastExpr", "CXXFunctionalCastExpr", "CXXReinterpretCastExpr"):
            inner = self.ev(n["c"][0], env) if n["c"] else TOP
            ck = n.get("ck", "")
            if ck in ("LValueToRValue", "NoOp", "ArrayToPointerDecay", "FunctionToPointerDecay"):
                return inner
            if ck == "LValueBitCast":
                # (uchar&)c : reinterpret the byte
                return cast_to(inner, n["t"])
            return cast_to(inner, n["t"])
        if k in ("DeclRefExpr", "MemberExpr", "ArraySubscriptExpr") or (k == "UnaryOperator" and n["op"] == "*"):
            if k == "UnaryOperator":
                # *(uchar*)str : the pointee type decides
                pass
            if k == "DeclRefExpr" and n["ref"]["dk"] == "local":
                defs = getattr(f, "_defs_cache", None)
                if defs is None:
                    defs = f._defs_cache = q.local_defs(f)
                init = q.single_def(f, n["ref"]["id"], defs)
                if init is not None:
                    r = self.ev(init, env)
                    return cast_to(r, n["t"])
            r = type_range(n.get("t", ""))
            return r if r is not None else TOP
        if k == "CallExpr" or k == "CXXMemberCallExpr":
            # return-set summary of small helper functions (all returns constant)
            if self.prog is not None and n.get("csig") in self.prog.functions:
                g = self.prog.functions[n["csig"]]
                vals = []
                for m in g.nodes:
                    if m["k"] == "ReturnStmt" and m["c"]:
                        v = fin.eval_expr(g, m["c"][0], {})
                        if v is None:
                            # single-exit style: a local every definition of which is a constant
                            x_ = g.nodes[g.strip(m["c"][0])]
                            dl_ = [d_ for d_ in q.local_defs(g).get(x_["ref"]["id"], []) if d_[0] != "addr" and not (d_[0] == "decl" and d_[2] is None)] if x_["k"] == "DeclRefExpr" and x_["ref"].get("dk") == "local" else []      # `usize result;` defines no value
                            cs_ = [fin.eval_expr(g, d_[2], {}) if d_[2] is not None else None for d_ in dl_]
                            if dl_ and all(c_ is not None for c_ in cs_) and not any(d_[0] == "addr" for d_ in q.local_defs(g).get(x_["ref"]["id"], [])):
                                vals += [(c_, c_) for c_ in cs_]
                                continue
                            vals = None
                            break
                        vals.append((v, v))
                if vals:
                    return norm(vals)
            r = type_range(n.get("t", ""))
            return r if r is not None else TOP
        if k == "UnaryOperator":
            a = self.ev(n["c"][0], env)
            if n["op"] == "-":
                return norm([(-b, -a_) for a_, b in a])
            if n["op"] == "~":
                return norm([(~b, ~a_) for a_, b in a])
            if n["op"] in ("++", "--"):
                r = type_range(n.get("t", ""))
                return r if r is not None else TOP
            if n["op"] == "+":
                return a
            return TOP
        if k == "BinaryOperator":
            op = n["op"]
            a, b = self.ev(n["c"][0], env), self.ev(n["c"][1], env)
            cb = b[0][0] if len(b) == 1 and b[0][0] == b[0][1] else None
            ca = a[0][0] if len(a) == 1 and a[0][0] == a[0][1] else None
            res = None
            if op == "&" and cb is not None and cb >= 0:
                res = map_values(a, lambda v: v & cb) or [(0, cb)]
            elif op == "&" and ca is not None and ca >= 0:
                res = map_values(b, lambda v: v & ca) or [(0, ca)]
            elif op == ">>" and cb is not None and cb >= 0:
                res = norm([(x >> cb, y >> cb) for x, y in a])
            elif op == "<<" and cb is not None and cb >= 0:
                res = norm([(x << cb, y << cb) for x, y in a])
            elif op == "+":
                res = norm([(x + u, y + v) for x, y in a for u, v in b])
            elif op == "-":
                res = norm([(x - v, y - u) for x, y in a for u, v in b])
            elif op == "*" and cb is not None:
                res = norm([(min(x * cb, y * cb), max(x * cb, y * cb)) for x, y in a])
            elif op == "%" and cb is not None and cb > 0:
                if all(x >= 0 for x, _ in a):
                    res = [(0, min(cb - 1, max(y for _, y in a)))]
                else:
                    res = [(-(cb - 1), cb - 1)]
            elif op == "/" and cb is not None and cb > 0 and all(x >= 0 for x, _ in a):
                res = norm([(x // cb, y // cb) for x, y in a])
            elif op == "|" and cb is not None and cb >= 0 and all(x >= 0 for x, _ in a):
                res = map_values(a, lambda v: v | cb)
            elif op in ("==", "!=", "<", ">", "<=", ">=", "&&", "||"):
                res = [(0, 1)]
            if res is None:
                r = type_range(n.get("t", ""))
                return r if r is not None else TOP
            tr = type_range(n.get("t", ""))
            if tr is not None:
                res = cast_to(res, n["t"])
            return res
        if k == "ConditionalOperator":
            # `x < C ? x : C` (a clamp): each arm is refined by the outcome of the test that selects it
            arms = []
            cn = f.nodes[f.strip(n["c"][0])]
            for arm, truth in ((n["c"][1], True), (n["c"][2], False)):
                v = self.ev(arm, env)
                if cn["k"] == "BinaryOperator" and cn.get("op") in ("<", "<=", ">", ">=", "==", "!=") and len(cn["c"]) == 2:
                    for x, y, flip in ((cn["c"][0], cn["c"][1], False), (cn["c"][1], cn["c"][0], True)):
                        c_ = fin.eval_expr(f, y, {})
                        if c_ is None or q.no_casts(f.r(f.strip(x))) != q.no_casts(f.r(f.strip(arm))) or f.r(x) != f.r(arm):
                            continue
                        op = cn["op"]
                        if flip:
                            op = {"<": ">", "<=": ">=", ">": "<", ">=": "<=", "==": "==", "!=": "!="}[op]
                        if not truth:
                            op = {"<": ">=", "<=": ">", ">": "<=", ">=": "<", "==": "!=", "!=": "=="}[op]
                        v = _filter(v, op, c_)
                arms += v
            return norm(arms)
        r = type_range(n.get("t", ""))
        return r if r is not None else TOP

    def refine_by_guards(self, i, pos):
        """value set of node i at CFG position pos, refined by dominating comparisons of the same expression
        (modulo casts that are value-preserving for the refined range) with constants"""
        f = self.f
        base = self.ev(i)
        atoms = fin.dominating_atoms(f, pos)
        target = f.r(i)
        target_nc = q.no_casts(target)
        for a in atoms:
            if a[0] == "case":
                if q.no_casts(f.r(a[1])) == target_nc and a[2] is not None:
                    base = [(a[2], a[2])]
                continue
            n = f.nodes[f.strip(a[0])]
            if n["k"] != "BinaryOperator" or n["op"] not in ("<", "<=", ">", ">=", "==", "!="):
                continue
            for x, y, flip in ((n["c"][0], n["c"][1], False), (n["c"][1], n["c"][0], True)):
                c = fin.eval_expr(f, y, {})
                if c is None:
                    continue
                # the compared expression must be the index expression itself, INCLUDING its casts
                # (a guard on the signed char does not bound the unsigned reinterpretation)
                if f.r(x) != target and f.r(f.strip(x)) != f.r(f.strip(i)):
                    continue
                if f.r(x) != target:
                    # same core expression under different casts: evaluate the guard on its own value set and map through the index's casts
                    gx = self.ev(x)
                    op = n["op"]
                    if flip:
                        op = {"<": ">", "<=": ">=", ">": "<", ">=": "<=", "==": "==", "!=": "!="}[op]
                    if not a[1]:
                        op = {"<": ">=", "<=": ">", ">": "<=", ">=": "<", "==": "!=", "!=": "=="}[op]
                    keep = _filter(gx, op, c)
                    # map the surviving raw values through the index's own cast chain
                    core = f.strip(x)
                    if small(keep):
                        vals = []
                        for lo, hi in keep:
                            for v in range(lo, hi + 1):
                                vals += self.ev(i, {f.r(core): [(v, v)]})
                        cand = norm(vals)
                        base = _intersect(base, cand)
                    continue
                op = n["op"]
                if flip:
                    op = {"<": ">", "<=": ">=", ">": "<", ">=": "<=", "==": "==", "!=": "!="}[op]
                if not a[1]:
                    op = {"<": ">=", "<=": ">", ">": "<=", ">=": "<", "==": "!=", "!=": "=="}[op]
                base = _filter(base, op, c)
        return base


def _filter(iv, op, c):
    out = []
    for a, b in iv:
        if op == "<":
            b = min(b, c - 1)
        elif op == "<=":
            b = min(b, c)
        elif op == ">":
            a = max(a, c + 1)
        elif op == ">=":
            a = max(a, c)
        elif op == "==":
            a, b = max(a, c), min(b, c)
        elif op == "!=":
            if a <= c <= b:
                out += [(a, c - 1), (c + 1, b)]
                continue
        out.append((a, b))
    return norm(out)


def _intersect(x, y):
    out = []
    for a, b in x:
        for c, d in y:
            lo, hi = max(a, c), min(b, d)
            if lo <= hi:
                out.append((lo, hi))
    return norm(out)
