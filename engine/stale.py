"""Stale summaries: a local that describes what was last put into an accumulator object (computed from the arguments of the call that
mutated it) and that later decides how the accumulator is changed again is a cached summary of the accumulator's state.  It has to be
recomputed after EVERY mutation of the accumulator - a mutation that leaves it alone makes the next decision on outdated knowledge."""
from . import q, fin
from . import containers as C

MUTATORS = ("append", "prepend", "resize", "clear", "remove", "removeBack", "removeFront", "insert", "assign", "operator=", "operator+=",
            "set", "reserve", "attach", "detach", "printf", "replace", "trim", "swap", "push", "pop")


def _locals_read(f, node):
    out = {}
    for x in [f.strip(node)] + list(f.desc(node)):
        n = f.nodes[x]
        if n["k"] == "DeclRefExpr" and n["ref"].get("dk") in ("local", "parm"):
            out[n["ref"]["id"]] = n["ref"]["n"]
    return out


def findings(f):
    """[(summary local name, guard node, mutation that leaves it stale, path)]; also the number of (accumulator, summary) pairs examined"""
    defs = q.local_defs(f)
    # accumulators: class-type locals mutated through member calls inside a loop
    muts = {}
    for c in q.calls(f):
        n = f.nodes[c]
        if n["k"] not in ("CXXMemberCallExpr", "CXXOperatorCallExpr"):
            continue
        short = (n.get("callee") or "").split("::")[-1]
        if short not in MUTATORS:
            continue
        o = q.call_object(f, c) if n["k"] == "CXXMemberCallExpr" else (n["c"][1] if len(n["c"]) > 1 else None)
        on = f.nodes[f.strip(o)] if o is not None else None
        if on is None or on["k"] != "DeclRefExpr" or on["ref"].get("dk") != "local" or f.node_pos(c) is None or not C.loop_blocks(f, c):
            continue
        muts.setdefault(on["ref"]["id"], []).append(c)
    out = []
    pairs = 0
    for oid, ms in muts.items():
        if len(ms) < 2:
            continue
        lb = set()
        for m in ms:
            lb |= C.loop_blocks(f, m) or set()
        mpos = {m: f.node_pos(m) for m in ms}
        # candidate summaries: non-pointer scalar locals assigned inside the loop from operands of a mutation they follow
        for vid, dl in defs.items():
            if vid == oid:
                continue
            vdefs = [(kind, nd, init) for kind, nd, init in dl if init is not None and kind != "addr" and f.node_pos(nd) is not None and f.node_pos(nd)[0] in lb]
            if not vdefs or any(kind == "addr" for kind, _n, _i in dl):
                continue
            vname = next((n_["ref"]["n"] for n_ in f.nodes if n_["k"] == "DeclRefExpr" and n_["ref"].get("id") == vid), None)
            vtype = next((n_["ref"].get("t") or "" for n_ in f.nodes if n_["k"] == "DeclRefExpr" and n_["ref"].get("id") == vid), "")
            if vname is None or "*" in vtype or "&" in vtype:
                continue
            coupled = []
            for kind, nd, init in vdefs:
                if fin.eval_expr(f, init, {}) is not None:
                    continue        # a constant says nothing about what was stored
                rd = _locals_read(f, init)
                for m in ms:
                    args = q.call_args(f, m)
                    ard = {}
                    for a in args:
                        ard.update(_locals_read(f, a))
                    ard.pop(oid, None)
                    if set(rd) & set(ard) and f.dominates_pos(mpos[m], f.node_pos(nd)):
                        coupled.append((m, nd))
            if not coupled:
                continue
            # guards of a mutation that read the summary
            guards = []
            for b in f.blocks.values():
                c_ = b.get("cond")
                if c_ is None or b["id"] not in lb or vid not in _locals_read(f, c_):
                    continue
                gp = f.node_pos(f.strip(c_)) or (b["id"], len(b["el"]))
                if any(f.dominates_pos(gp, mpos[m]) for m in ms):
                    guards.append((c_, gp))
            if not guards:
                continue
            pairs += 1
            vpos = set(f.node_pos(nd) for _k, nd, _i in dl if f.node_pos(nd) is not None)
            for g, gp in guards:
                for m in ms:
                    path = f.find_path(mpos[m], {gp}, avoid=vpos)
                    if path is not None:
                        out.append((vname, g, m, path))
                        break
    return out, pairs
