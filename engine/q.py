"""Query helpers shared by the rule instances: stores, calls, events, path rules, small dataflows."""
from collections import namedtuple

Store = namedtuple("Store", "node lhs rhs op")   # node ids; rhs may be None (++/--)


# --------------------------------------------------------------------------- basic matchers

def stores(f, root=None):
    """all writes through assignment-like operators (built-in), as Store tuples"""
    out = []
    ids = f.desc(root) if root is not None else range(len(f.nodes))
    for i in ids:
        n = f.nodes[i]
        k = n["k"]
        if k == "BinaryOperator" and n["op"] == "=":
            out.append(Store(i, f.strip(n["c"][0]), n["c"][1], "="))
        elif k == "CompoundAssignOperator":
            out.append(Store(i, f.strip(n["c"][0]), n["c"][1], n["op"]))
        elif k == "UnaryOperator" and n["op"] in ("++", "--"):
            out.append(Store(i, f.strip(n["c"][0]), None, n["op"]))
        elif k == "CXXOperatorCallExpr" and n.get("oop") in ("=", "+=", "-="):
            c = n["c"]
            if len(c) >= 3:
                out.append(Store(i, f.strip(c[1]), c[2], n["oop"]))
    return out


def stores_to(f, lhs_text, root=None):
    return [s for s in stores(f, root) if f.r(s.lhs) == lhs_text]


def stores_to_member(f, member, root=None):
    """stores whose left side is a MemberExpr naming `member` (any base)"""
    out = []
    for s in stores(f, root):
        n = f.nodes[s.lhs]
        if n["k"] == "MemberExpr" and n["m"] == member:
            out.append(s)
    return out


def calls(f, pred=None, root=None):
    """call-like nodes (calls, member calls, operator calls, constructions) with resolved callee"""
    out = []
    ids = f.desc(root) if root is not None else range(len(f.nodes))
    for i in ids:
        n = f.nodes[i]
        if n["k"] in ("CallExpr", "CXXMemberCallExpr", "CXXOperatorCallExpr", "CXXConstructExpr", "CXXTemporaryObjectExpr"):
            if pred is None or pred(n):
                out.append(i)
    return out


def calls_named(f, qname, root=None):
    return calls(f, lambda n: n.get("callee") == qname, root)


def call_args(f, i):
    n = f.nodes[i]
    if n["k"] in ("CallExpr",):
        return n["c"][1:]
    if n["k"] == "CXXMemberCallExpr":
        return n["c"][1:]
    if n["k"] == "CXXOperatorCallExpr":
        return n["c"][1:]
    return n["c"]


def call_object(f, i):
    """the object expression of a member call (node id) or None"""
    n = f.nodes[i]
    if n["k"] == "CXXMemberCallExpr":
        me = f.strip(n["c"][0])
        m = f.nodes[me]
        if m["k"] == "MemberExpr" and m["c"]:
            return f.strip(m["c"][0])
    return None


def is_zero(f, i):
    i = f.strip(i)
    n = f.nodes[i]
    if n.get("cv") == 0:
        return True
    if n["k"] in ("IntegerLiteral", "CharacterLiteral") and n.get("v") == 0:
        return True
    if n["k"] in ("CXXNullPtrLiteralExpr", "GNUNullExpr"):
        return True
    if n["k"] in ("CStyleCastExpr", "CXXStaticCastExpr", "CXXReinterpretCastExpr") and n["c"]:
        return is_zero(f, n["c"][0])
    return False


def local_defs(f):
    """decl id -> list of defining node ids (DeclStmt init or assignment) for locals/params"""
    defs = {}
    for n in f.nodes:
        if n["k"] == "DeclStmt":
            for d in n["decls"]:
                defs.setdefault(d["id"], []).append(("decl", n["i"], d.get("init")))
    for s in stores(f):
        ln = f.nodes[s.lhs]
        if ln["k"] == "DeclRefExpr" and ln["ref"]["dk"] in ("local", "parm"):
            defs.setdefault(ln["ref"]["id"], []).append(("store", s.node, s.rhs))
    # iterators stepped by an overloaded ++ / -- change as well
    for n in f.nodes:
        if n["k"] == "CXXOperatorCallExpr" and n.get("oop") in ("++", "--") and len(n["c"]) >= 2:
            t = f.nodes[f.strip(n["c"][1])]
            if t["k"] == "DeclRefExpr" and t["ref"]["dk"] in ("local", "parm"):
                defs.setdefault(t["ref"]["id"], []).append(("store", n["i"], None))
    # address-taken locals are treated as multiply defined
    for n in f.nodes:
        if n["k"] == "UnaryOperator" and n["op"] == "&":
            t = f.nodes[f.strip(n["c"][0])]
            if t["k"] == "DeclRefExpr" and t["ref"]["dk"] in ("local", "parm"):
                defs.setdefault(t["ref"]["id"], []).append(("addr", n["i"], None))
    return defs


def single_def(f, declid, defs=None):
    """init expression node of a local that is defined exactly once (by its declaration)"""
    defs = defs if defs is not None else local_defs(f)
    d = defs.get(declid, [])
    if len(d) == 1 and d[0][0] == "decl" and d[0][2] is not None:
        return d[0][2]
    # a reference is bound once, by its declaration: assignments through it write the referent and do not re-define the alias
    if d and d[0][0] == "decl" and d[0][2] is not None and not any(x[0] == "addr" for x in d):
        rt = getattr(f, "_ref_locals", None)
        if rt is None:
            rt = f._ref_locals = set(dd["id"] for n in f.nodes if n["k"] == "DeclStmt" for dd in n["decls"] if dd.get("t", "").endswith("&"))
        if declid in rt:
            return d[0][2]
    return None


def xr(f, i, defs=None, depth=0):
    """expanded rendering: like f.r() but single-definition locals are replaced by their
    initialisers, so `usize n = size + 1; new char[n]` reads as `new char[(size + 1)]`"""
    if defs is None:
        defs = local_defs(f)
    i = f.strip(i)
    n = f.nodes[i]
    if n["k"] == "DeclRefExpr" and n["ref"]["dk"] == "local" and depth < 6 and not n.get("t", "").endswith("]"):
        init = single_def(f, n["ref"]["id"], defs)
        if init is not None and f.nodes[f.strip(init)]["k"] not in ("CXXConstructExpr", "CXXTemporaryObjectExpr", "InitListExpr"):
            return xr(f, init, defs, depth + 1)     # (an object built by a constructor is changed through its members, not re-defined)
        return n["ref"]["n"]
    k = n["k"]
    c = n["c"]
    if k in ("BinaryOperator", "CompoundAssignOperator"):
        return "(%s %s %s)" % (xr(f, c[0], defs, depth), n["op"], xr(f, c[1], defs, depth))
    if k == "UnaryOperator":
        a = xr(f, c[0], defs, depth)
        return a + n["op"] if n.get("post") else n["op"] + a
    if k == "MemberExpr" and c:
        return xr(f, c[0], defs, depth) + ("->" if n.get("arrow") else ".") + n["m"]
    if k in ("CStyleCastExpr", "CXXStaticCastExpr", "CXXReinterpretCastExpr", "CXXFunctionalCastExpr") and c:
        return "(%s)%s" % (n["t"], xr(f, c[0], defs, depth))
    if k == "ArraySubscriptExpr" and len(c) == 2:
        return "%s[%s]" % (xr(f, c[0], defs, depth), xr(f, c[1], defs, depth))
    if k == "CXXOperatorCallExpr" and n.get("oop") == "*" and len(c) == 2:
        return "*" + xr(f, c[1], defs, depth)
    if k == "CXXOperatorCallExpr" and len(c) == 3 and n.get("oop") in ("+", "-", "==", "!=", "<", "<=", ">", ">="):
        a, b = xr(f, c[1], defs, depth), xr(f, c[2], defs, depth)
        if f.r(i) == "(%s %s %s)" % (f.r(c[1]), n["oop"], f.r(c[2])):      # only where the plain rendering has this very form
            return "(%s %s %s)" % (a, n["oop"], b)
    return f.r(i)


def no_casts(s):
    """drop C-style casts from a rendered expression: '(usize)(a - b)' -> '(a - b)'"""
    import re
    prev = None
    while prev != s:
        prev = s
        s = re.sub(r"(?<![\w\])>])\((?:const |unsigned |volatile |struct )*[A-Za-z_][\w:<>, ]*(?:\s*\*|\s*const\b|\s*&)*\s*\)(?=[\w(*&!~-])", "", s)
    return s


# --------------------------------------------------------------------------- path rules

def pos_of(f, ids):
    out = set()
    for i in ids:
        p = f.node_pos(i)
        if p is not None:
            out.add(p)
    return out


def must_pass(f, a_node, b_nodes, stop_nodes=(), to_exit=True):
    """MPT: every path from just after a_node to the function exit passes a node in b_nodes
    (paths that first hit a node in stop_nodes are not considered further).
    returns None when it holds, else a witness path (positions)"""
    a = f.node_pos(a_node)
    if a is None:
        return []
    avoid = pos_of(f, b_nodes) | pos_of(f, stop_nodes)
    avoid.discard(a)
    return f.find_path(a, {f.exit_pos()}, avoid=avoid)


def must_pass_from_entry(f, b_nodes, stop_nodes=()):
    avoid = pos_of(f, b_nodes) | pos_of(f, stop_nodes)
    return f.find_path(f.entry_pos(), {f.exit_pos()}, avoid=avoid, after_src=False)


def reaches(f, a_node, b_node, avoid_nodes=()):
    a, b = f.node_pos(a_node), f.node_pos(b_node)
    if a is None or b is None:
        return False
    av = pos_of(f, avoid_nodes)
    av.discard(b)
    return f.find_path(a, {b}, avoid=av) is not None


def precedes_always(f, a_nodes, b_node):
    """ORD/DOM: every path from entry to b_node passes one of a_nodes"""
    b = f.node_pos(b_node)
    avoid = pos_of(f, a_nodes)
    if b in avoid:
        # same position: a precedes b only if it is an earlier sub-expression; treat as satisfied
        return True
    return f.find_path(f.entry_pos(), {b}, avoid=avoid, after_src=False) is None


# --------------------------------------------------------------------------- forward dataflow

def forward(f, init, transfer, edge_refine=None, join=None, max_iter=10000):
    """generic forward dataflow over CFG blocks.
    state: any hashable/eq-comparable value; None = unreachable.
    transfer(state, element) -> state        (element: node id or implicit-element dict)
    edge_refine(state, block, succ_index) -> state or None (None: edge infeasible)
    join(a, b) -> state
    returns (state_in[block], state_at[(block, idx)]) where state_at is the state *before* element idx"""
    sin = {b: None for b in f.blocks}
    sin[f.entry] = init
    work = [f.entry]
    sat = {}
    it = 0
    while work:
        it += 1
        if it > max_iter:
            break
        b = work.pop()
        st = sin[b]
        if st is None:
            continue
        blk = f.blocks[b]
        for i, e in enumerate(blk["el"]):
            sat[(b, i)] = st
            st = transfer(st, e)
        sat[(b, len(blk["el"]))] = st
        for k, s in enumerate(blk["succ"]):
            if s is None:
                continue
            st2 = edge_refine(st, blk, k) if edge_refine else st
            if st2 is None:
                continue
            old = sin[s]
            new = st2 if old is None else join(old, st2)
            if new != old:
                sin[s] = new
                work.append(s)
    return sin, sat


def cond_atoms(f, cond, truth):
    """decompose a branch condition into atomic facts known on the `truth` edge:
    list of (node id, bool). Handles !, and the fact that clang already splits && / ||."""
    out = []
    i = f.strip(cond)
    n = f.nodes[i]
    if n["k"] == "UnaryOperator" and n["op"] == "!":
        return cond_atoms(f, n["c"][0], not truth)
    if n["k"] == "BinaryOperator" and n["op"] == "&&":
        if truth:
            return cond_atoms(f, n["c"][0], True) + cond_atoms(f, n["c"][1], True)
        return []
    if n["k"] == "BinaryOperator" and n["op"] == "||":
        if not truth:
            return cond_atoms(f, n["c"][0], False) + cond_atoms(f, n["c"][1], False)
        return []
    if n["k"] == "BinaryOperator" and n["op"] == "=":
        # if((a = b)) : the assigned value is tested; report the lhs as the atom
        return [(f.strip(n["c"][0]), truth), (i, truth)]
    return [(i, truth)]


def edge_facts(f, blk, k):
    """facts (rendered text, truth) known on successor edge k of a two-way branch"""
    c = blk.get("cond")
    if c is None or len(blk["succ"]) != 2 or blk.get("tk") == "SwitchStmt":
        return []
    truth = (k == 0)
    out = []
    for a, t in cond_atoms(f, c, truth):
        out.append((f.r(a), t, a))
        # `p != 0` / `p == 0` / `0 == p` say the same about p as `p` / `!p`
        n = f.nodes[f.strip(a)]
        if n["k"] == "BinaryOperator" and n.get("op") in ("==", "!=") and len(n["c"]) == 2:
            z = [is_zero(f, x) for x in n["c"]]
            if z[0] != z[1]:
                other = n["c"][0] if z[1] else n["c"][1]
                out.append((no_casts(f.r(other)), (n["op"] == "!=") == bool(t), f.strip(other)))
    return out


# --------------------------------------------------------------------------- field write events

class FieldWrite:
    __slots__ = ("pos", "node", "rhs", "op", "field", "base")

    def __init__(self, pos, node, rhs, op, field, base):
        self.pos, self.node, self.rhs, self.op, self.field, self.base = pos, node, rhs, op, field, base

    def __repr__(self):
        return "<FieldWrite %s.%s %s @%s>" % (self.base, self.field, self.op, self.pos)


def field_writes(f, field=None, base="this"):
    """writes to fields `base->field` (base rendered text, default the object itself) including
    constructor initialisers; field None = all fields"""
    out = []
    for s in stores(f):
        n = f.nodes[s.lhs]
        if n["k"] == "MemberExpr" and n.get("mk") == "field" and n["c"]:
            b = f.r(n["c"][0])
            if (field is None or n["m"] == field) and (base is None or b == base):
                out.append(FieldWrite(f.node_pos(s.node), s.node, s.rhs, s.op, n["m"], b))
    if base in ("this", None):
        for b in f.blocks.values():
            for i, e in enumerate(b["el"]):
                if isinstance(e, dict) and e.get("k") == "init" and "field" in e:
                    if field is None or e["field"] == field:
                        out.append(FieldWrite((b["id"], i), None, e.get("e"), "init", e["field"], "this"))
    return out


def nullness(f, field_text, fresh_locals=True):
    """forward dataflow for one pointer-valued access path (rendered text, e.g. 'this->buffer'):
    state in {'null', 'nonnull', 'top'} before every CFG position."""
    member = field_text.split("->")[-1].split(".")[-1]
    defs = local_defs(f)

    def rhs_state(rhs):
        if rhs is None:
            return "top"
        r = f.strip(rhs)
        n = f.nodes[r]
        if is_zero(f, r):
            return "null"
        while n["k"] in ("CStyleCastExpr", "CXXStaticCastExpr", "CXXReinterpretCastExpr") and n["c"]:
            r = f.strip(n["c"][0])
            n = f.nodes[r]
        if n["k"] == "CXXNewExpr":
            return "nonnull"
        if n["k"] == "BinaryOperator" and n["op"] == "=":
            return rhs_state(n["c"][1])
        if n["k"] == "DeclRefExpr" and n["ref"]["dk"] == "local":
            init = single_def(f, n["ref"]["id"], defs)
            if init is not None:
                return rhs_state(init)
        return "top"

    def transfer(st, e):
        if isinstance(e, dict):
            if e.get("k") == "init" and e.get("field") == member and field_text.startswith("this->"):
                return rhs_state(e.get("e"))
            return st
        n = f.nodes[e]
        if n["k"] == "BinaryOperator" and n["op"] == "=" and f.r(n["c"][0]) == field_text:
            return rhs_state(n["c"][1])
        if n["k"] == "CXXMemberCallExpr":
            obj = call_object(f, e)
            if obj is not None and f.nodes[obj]["k"] == "CXXThisExpr" and field_text.startswith("this->"):
                # a call to another non-const member may change the field
                if not n.get("csig", "").endswith(" const"):
                    return "top"
        return st

    def refine(st, blk, k):
        for text, truth, _a in edge_facts(f, blk, k):
            if text == field_text:
                want = "nonnull" if truth else "null"
                if st != "top" and st != want:
                    return None
                return want
        return st

    def join(a, b):
        return a if a == b else "top"

    init = "top"
    return forward(f, init, transfer, refine, join)


def alias_root(f, name, defs=None, depth=0):
    """if the local `name` is defined exactly once, by a declaration whose initialiser is just another variable (a reference or
    copy alias, e.g. the parameter of an inlined helper), the name of that variable (followed transitively); else `name`"""
    if depth > 5:
        return name
    defs = defs if defs is not None else local_defs(f)
    for n in f.nodes:
        if n["k"] != "DeclStmt":
            continue
        for d in n["decls"]:
            if d["n"] == name and d.get("init") is not None:
                dl = defs.get(d["id"], [])
                if len([x for x in dl if x[0] != "decl"]) > 0:
                    return name
                i = f.strip(d["init"])
                while f.nodes[i]["k"] in ("CStyleCastExpr", "CXXStaticCastExpr", "CXXConstCastExpr") and f.nodes[i]["c"]:
                    i = f.strip(f.nodes[i]["c"][0])
                t = f.nodes[i]
                if t["k"] == "DeclRefExpr" and t["ref"].get("dk") in ("local", "parm") and t["ref"]["n"] != name:
                    return alias_root(f, t["ref"]["n"], defs, depth + 1)
                return name
    return name


def reaching_def(f, declid, use_node, defs=None):
    """right-hand side of the one definition of the local that reaches `use_node` (every path from another definition to the use
    passes it again); None when several definitions reach the use"""
    defs = defs if defs is not None else local_defs(f)
    dl = [d for d in defs.get(declid, []) if d[2] is not None and d[0] != "addr"]
    if any(d[0] == "addr" for d in defs.get(declid, [])):
        return None
    up = f.node_pos(use_node)
    if up is None:
        return None
    reach = []
    for d in dl:
        dp = f.node_pos(d[1])
        if dp is None:
            continue
        others = set(f.node_pos(o[1]) for o in dl if o is not d and f.node_pos(o[1]) is not None)
        if dp == up or f.find_path(dp, {up}, avoid=others - {up}) is not None:
            reach.append(d)
    return reach[0][2] if len(reach) == 1 else None


def loop_entered(f, head, loop_blocks):
    """is the condition of the loop head `head` (a `while(v)` / `for(;v;)` test of a pointer or integer local) certainly true when
    the loop is reached from outside?  The value that reaches the head from outside must be an expression that a dominating
    branch edge established as true (e.g. `Item* item = parent;` below the else-branch of `if(!parent)`)."""
    from . import fin
    blk = f.blocks[head]
    c = blk.get("cond")
    if c is None or len(blk["succ"]) != 2:
        return False
    x = f.strip(c)
    n = f.nodes[x]
    if n["k"] != "DeclRefExpr" or n["ref"].get("dk") != "local":
        return False
    defs = local_defs(f)
    outside = [p for p in f.preds.get(head, []) if p not in loop_blocks]
    if not outside:
        return False
    for p in outside:
        end = (p, len(f.blocks[p]["el"]))
        dl = [d for d in defs.get(n["ref"]["id"], []) if d[2] is not None and d[0] != "addr" and f.node_pos(d[1]) is not None]
        reach = [d for d in dl if f.node_pos(d[1]) == end or f.find_path(f.node_pos(d[1]), {end}, avoid=set(f.node_pos(o[1]) for o in dl if o is not d) - {end}) is not None
                 or f.node_pos(d[1])[0] == p]
        reach = [d for d in reach if (f.node_pos(d[1])[0] not in loop_blocks)]
        if len(reach) != 1:
            return False
        val = {}
        for a in fin.dominating_atoms(f, end):
            if a[0] != "case":
                val[fin.key(f, a[0])] = 1 if a[1] else 0
        v = fin.eval_expr(f, reach[0][2], val)
        if not v:
            return False
    return True
