"""A small linear-inequality abstract domain (own implementation, no external solver).

State = (env: location -> linear expression over immutable symbols, cons: set of linear
inequalities `expr >= 0` over those symbols, facts: truth of pointer-valued locations).
Entailment is decided by Fourier-Motzkin elimination over the rationals with integer
tightening of strict inequalities (sound for proving entailment).  Joins keep what both
predecessors entail, introducing a fresh symbol for locations whose values differ.

Assumptions (listed in the evidence): machine integers do not wrap in the analysed
expressions (sizes are far below 2^63), casts between integer/pointer types of equal
width are value-preserving, pointer arithmetic on byte pointers has unit stride."""
from fractions import Fraction
import itertools

from . import q


class Lin:
    __slots__ = ("c", "k")

    def __init__(self, c=None, k=0):
        self.c = {v: Fraction(x) for v, x in (c or {}).items() if x != 0}
        self.k = Fraction(k)

    @staticmethod
    def var(v):
        return Lin({v: 1}, 0)

    @staticmethod
    def const(k):
        return Lin({}, k)

    def __add__(self, o):
        c = dict(self.c)
        for v, x in o.c.items():
            c[v] = c.get(v, 0) + x
        return Lin(c, self.k + o.k)

    def __sub__(self, o):
        return self + o.scale(-1)

    def scale(self, s):
        return Lin({v: x * s for v, x in self.c.items()}, self.k * s)

    def is_const(self):
        return not self.c

    def key(self):
        return (tuple(sorted(self.c.items())), self.k)

    def __eq__(self, o):
        return isinstance(o, Lin) and self.key() == o.key()

    def __hash__(self):
        return hash(self.key())

    def __repr__(self):
        parts = []
        for v, x in sorted(self.c.items()):
            parts.append(("%s*" % x if x != 1 else "") + v)
        if self.k != 0 or not parts:
            parts.append(str(self.k))
        return " + ".join(parts)

    def subst(self, m):
        r = Lin({}, self.k)
        for v, x in self.c.items():
            r = r + (m[v].scale(x) if v in m else Lin({v: x}))
        return r


def _normalise(e):
    """scale so that the constraint e >= 0 has integer coefficients with gcd 1 and tighten the constant"""
    if not e.c:
        return e
    from math import gcd
    den = 1
    for x in list(e.c.values()) + [e.k]:
        den = den * x.denominator // gcd(den, x.denominator)
    e = e.scale(den)
    g = 0
    for x in e.c.values():
        g = gcd(g, abs(int(x)))
    if g > 1:
        # integer tightening: sum(a_i x_i)/g + floor(k/g) >= 0
        e = Lin({v: x / g for v, x in e.c.items()}, (e.k // g))
    return e


def unsat(cons, limit=4000):
    """is the conjunction of `e >= 0` (integers) unsatisfiable?  Fourier-Motzkin, sound 'True' only."""
    cs = set()
    for e in cons:
        e = _normalise(e)
        if not e.c:
            if e.k < 0:
                return True
            continue
        cs.add(e)
    while True:
        vars_ = set()
        for e in cs:
            vars_.update(e.c)
        if not vars_:
            return any(e.k < 0 for e in cs)
        # eliminate the variable with the fewest pos*neg combinations
        best = None
        for v in vars_:
            p = sum(1 for e in cs if e.c.get(v, 0) > 0)
            n = sum(1 for e in cs if e.c.get(v, 0) < 0)
            cost = p * n - p - n
            if best is None or cost < best[0]:
                best = (cost, v)
        v = best[1]
        pos = [e for e in cs if e.c.get(v, 0) > 0]
        neg = [e for e in cs if e.c.get(v, 0) < 0]
        rest = set(e for e in cs if e.c.get(v, 0) == 0)
        for a in pos:
            for b in neg:
                ca, cb = a.c[v], -b.c[v]
                e = _normalise(a.scale(cb) + b.scale(ca))
                if not e.c:
                    if e.k < 0:
                        return True
                    continue
                rest.add(e)
        if len(rest) > limit:
            return False   # give up: not proved
        cs = rest


def entails(cons, goal):
    """cons |= goal >= 0   (over the integers)"""
    neg = goal.scale(-1) + Lin.const(-1)
    return unsat(list(cons) + [neg])


class State:
    __slots__ = ("env", "cons", "facts")

    def __init__(self, env=None, cons=None, facts=None):
        self.env = dict(env or {})
        self.cons = frozenset(cons or ())
        self.facts = dict(facts or {})

    def copy(self):
        return State(self.env, self.cons, self.facts)

    def __eq__(self, o):
        return isinstance(o, State) and self.env == o.env and self.cons == o.cons and self.facts == o.facts

    def __ne__(self, o):
        return not self.__eq__(o)

    def add(self, *es):
        self.cons = self.cons | frozenset(_normalise(e) for e in es)

    def proves(self, goal):
        return entails(self.cons, goal)

    def infeasible(self):
        return unsat(self.cons)


class LinAI:
    """forward abstract interpretation of one function in the linear domain"""

    def __init__(self, f, model):
        self.f = f
        self.m = model
        self.counter = itertools.count()
        self.alloc = {}          # block symbol -> Lin size (bytes)
        self.visits = {}
        self.node_sym = {}       # node id -> stable symbol (so re-evaluation is idempotent)

    def fresh(self, hint, node=None):
        if node is not None:
            if node not in self.node_sym:
                self.node_sym[node] = "%s#%d" % (hint, node)
            return self.node_sym[node]
        return "%s$%d" % (hint, next(self.counter))

    # ---- locations
    def loc_key(self, i):
        f = self.f
        i = f.strip(i)
        n = f.nodes[i]
        if n["k"] == "DeclRefExpr" and n["ref"]["dk"] in ("local", "parm"):
            return "L:%s:%s" % (n["ref"]["n"], n["ref"]["id"])
        if n["k"] == "MemberExpr" and n.get("mk") == "field":
            return q.no_casts(f.r(i))
        return None

    def read_loc(self, st, key, hint):
        if key not in st.env:
            st.env[key] = Lin.var(hint + "@0")
        return st.env[key]

    # ---- expression evaluation (returns Lin; unknown values become fresh symbols)
    def ev(self, st, i):
        f = self.f
        i = f.strip(i)
        n = f.nodes[i]
        k = n["k"]
        c = n["c"]
        if "cv" in n and k not in ("DeclRefExpr", "MemberExpr"):
            return Lin.const(n["cv"])
        if k in ("IntegerLiteral", "CharacterLiteral", "CXXBoolLiteralExpr"):
            return Lin.const(n["v"])
        if k in ("CXXNullPtrLiteralExpr", "GNUNullExpr"):
            return Lin.const(0)
        if k in ("CStyleCastExpr", "CXXStaticCastExpr", "CXXReinterpretCastExpr", "CXXFunctionalCastExpr", "CXXConstCastExpr") and c:
            return self.ev(st, c[0])
        if k in ("DeclRefExpr", "MemberExpr"):
            key = self.loc_key(i)
            if key is not None:
                hint = key.split(":")[1] if key.startswith("L:") else key
                first = key not in st.env
                v = self.read_loc(st, key, hint)
                if first and n.get("t", "").startswith("unsigned"):
                    st.add(v)     # values of unsigned type are non-negative
                return v
            v = Lin.var(self.fresh("v", i))
            if n.get("t", "").startswith("unsigned"):
                st.add(v)
            return v
        if k == "BinaryOperator":
            op = n["op"]
            if op in ("+", "-"):
                a, b = self.ev(st, c[0]), self.ev(st, c[1])
                return a + b if op == "+" else a - b
            if op == "*":
                a, b = self.ev(st, c[0]), self.ev(st, c[1])
                if a.is_const():
                    return b.scale(a.k)
                if b.is_const():
                    return a.scale(b.k)
            if op == "=":
                return self.ev(st, c[1])
            if op == ",":
                return self.ev(st, c[1])
            return Lin.var(self.fresh("v", i))
        if k == "UnaryOperator":
            if n["op"] == "-":
                return self.ev(st, c[0]).scale(-1)
            if n["op"] == "+":
                return self.ev(st, c[0])
            if n["op"] == "&":
                # address of a location: a symbol of its own
                return Lin.var("&" + q.no_casts(f.r(c[0])))
            if n["op"] in ("++", "--"):
                v = self.ev(st, c[0])
                if n.get("post"):
                    return v
                return v + Lin.const(1 if n["op"] == "++" else -1)
            return Lin.var(self.fresh("v", i))
        if k == "ConditionalOperator":
            # the selector is a location whose truth this state knows (`p ? p : q` in the disjunct where p is non-null)
            ck = self.loc_key(f.strip(c[0]))
            if ck is not None and st.facts.get(ck) is not None:
                return self.ev(st, c[1] if st.facts[ck] else c[2])
            t = Lin.var(self.fresh("sel", i))
            a, b = self.ev(st, c[1]), self.ev(st, c[2])
            cn = f.nodes[f.strip(c[0])]
            if cn["k"] == "BinaryOperator" and cn["op"] in ("<", "<=", ">", ">="):
                x, y = self.ev(st, cn["c"][0]), self.ev(st, cn["c"][1])
                lo = cn["op"] in ("<", "<=")
                # (x < y ? x : y) = min ; (x < y ? y : x) = max ; same with > swapped
                if (a == x and b == y) or (a == y and b == x):
                    is_min = (a == x) == lo
                    if is_min:
                        st.add(a - t, b - t)
                    else:
                        st.add(t - a, t - b)
            # in any case the value is one of the arms: if both arms are bounded the same way keep that
            return t
        if k == "CXXNewExpr" and n.get("arr") and "asize" in n:
            b = self.fresh("block", i)
            self.alloc[b] = self.ev(st, n["asize"])
            st.facts[b] = True
            return Lin.var(b)
        if k == "UnaryExprOrTypeTraitExpr" and "cv" in n:
            return Lin.const(n["cv"])
        r = self.m.eval_special(self, st, i) if hasattr(self.m, "eval_special") else None
        if r is not None:
            return r
        return Lin.var(self.fresh("v", i))

    # ---- transfer
    def assign(self, st, lhs, val):
        key = self.loc_key(lhs)
        if key is not None:
            st.env[key] = val
            st.facts.pop(key, None)
            if len(val.c) == 1 and val.k == 0:
                (sym, co), = val.c.items()
                if co == 1 and sym in st.facts:
                    st.facts[key] = st.facts[sym]
            if val.is_const() and val.k == 0:
                st.facts[key] = False
        else:
            self.m.store_unknown(self, st, lhs) if hasattr(self.m, "store_unknown") else None

    def transfer(self, st, e):
        f = self.f
        st = st.copy()
        if isinstance(e, dict):
            if e.get("k") == "init" and "field" in e and e.get("e") is not None:
                val = self.ev(st, e["e"])
                key = "this->" + e["field"]
                st.env[key] = val
                st.facts.pop(key, None)
                if val.is_const() and val.k == 0:
                    st.facts[key] = False
                if len(val.c) == 1 and val.k == 0 and list(val.c)[0] in st.facts:
                    st.facts[key] = st.facts[list(val.c)[0]]
            return st
        n = f.nodes[e]
        k = n["k"]
        if k == "BinaryOperator" and n["op"] == "=":
            self.assign(st, n["c"][0], self.ev(st, n["c"][1]))
        elif k == "CompoundAssignOperator" and n["op"] in ("+=", "-="):
            cur = self.ev(st, n["c"][0])
            d = self.ev(st, n["c"][1])
            self.assign(st, n["c"][0], cur + d if n["op"] == "+=" else cur - d)
        elif k == "CompoundAssignOperator":
            self.assign(st, n["c"][0], Lin.var(self.fresh("v", e)))
        elif k == "UnaryOperator" and n["op"] in ("++", "--"):
            cur = self.ev(st, n["c"][0])
            self.assign(st, n["c"][0], cur + Lin.const(1 if n["op"] == "++" else -1))
        elif k == "DeclStmt":
            for d in n["decls"]:
                key = "L:%s:%s" % (d["n"], d["id"])
                if "init" in d:
                    st.env[key] = self.ev(st, d["init"])
                    v = st.env[key]
                    if len(v.c) == 1 and v.k == 0 and list(v.c)[0] in st.facts:
                        st.facts[key] = st.facts[list(v.c)[0]]
                else:
                    st.env[key] = Lin.var(self.fresh(d["n"], e))
        elif k in ("CXXMemberCallExpr", "CallExpr", "CXXOperatorCallExpr"):
            self.m.call(self, st, e)
        return st

    def cond(self, st, cnode, truth, _depth=0):
        """refine with a branch condition"""
        f = self.f
        st = st.copy()
        for a, t in q.cond_atoms(f, cnode, truth):
            n = f.nodes[a]
            if n["k"] == "BinaryOperator" and n["op"] in ("<", "<=", ">", ">=", "==", "!="):
                x, y = self.ev(st, n["c"][0]), self.ev(st, n["c"][1])
                op = n["op"]
                if not t:
                    op = {"<": ">=", "<=": ">", ">": "<=", ">=": "<", "==": "!=", "!=": "=="}[op]
                if op == "<":
                    st.add(y - x - Lin.const(1))
                elif op == "<=":
                    st.add(y - x)
                elif op == ">":
                    st.add(x - y - Lin.const(1))
                elif op == ">=":
                    st.add(x - y)
                elif op == "==":
                    st.add(x - y, y - x)
                # `p != 0` / `p == 0` of a pointer the domain tracks by nullness (`buffer`): the same fact as the plain truth test
                if op in ("==", "!="):
                    zs = [q.is_zero(f, c_) for c_ in n["c"]]
                    if zs[0] != zs[1]:
                        key = self.loc_key(f.strip(n["c"][0] if zs[1] else n["c"][1]))
                        if key is not None:
                            tv = (op == "!=")
                            if key in st.facts and st.facts[key] != tv:
                                return None
                            st.facts[key] = tv
                            self.m.learned(self, st, key, tv)
            else:
                key = self.loc_key(a)
                if key is not None:
                    if key in st.facts and st.facts[key] != t:
                        return None
                    st.facts[key] = t
                    self.m.learned(self, st, key, t)
                # a bool local that names a test whose operands still have the values they had at its definition carries that test
                if n["k"] == "DeclRefExpr" and n["ref"].get("dk") == "local" and "bool" in (n["ref"].get("t") or n.get("t") or "") and _depth < 3:
                    from . import fin
                    pos_ = f.node_pos(a) or f.node_pos(cnode)
                    init_ = fin._stable_init(f, n["ref"]["id"], pos_) if pos_ is not None else None
                    if init_ is not None:
                        st2 = self.cond(st, init_, t, _depth + 1)
                        if st2 is None:
                            return None
                        st = st2
        if st.infeasible():
            return None
        return st

    def join(self, a, b, widen=False):
        if a == b:
            return a
        env = {}
        ca, cb = set(a.cons), set(b.cons)
        eqa, eqb = [], []
        newsyms = []
        for k in set(a.env) | set(b.env):
            va, vb = a.env.get(k), b.env.get(k)
            if va is None or vb is None:
                # read on one side only: introduce the entry symbol on the other side
                hint = k.split(":")[1] if k.startswith("L:") else k
                va = va if va is not None else Lin.var(hint + "@0")
                vb = vb if vb is not None else Lin.var(hint + "@0")
            if va == vb:
                env[k] = va
            else:
                s = "j%d$%s" % (next(self.counter), k.split(":")[1] if k.startswith("L:") else k)
                env[k] = Lin.var(s)
                eqa += [Lin.var(s) - va, va - Lin.var(s)]
                eqb += [Lin.var(s) - vb, vb - Lin.var(s)]
                newsyms.append((s, va, vb))
        A = list(ca) + eqa
        B = list(cb) + eqb
        cands = set(ca) | set(cb)
        # relate each new symbol to every value present in the environment
        for s, va, vb in newsyms:
            for other in list(env.values()) + [va, vb]:
                cands.add(_normalise(Lin.var(s) - other))
                cands.add(_normalise(other - Lin.var(s)))
        # ... and to sums of two environment values (`end <= buffer + capacity` when the two sides reached it differently)
        vals_ = []
        for v_ in env.values():
            if v_ not in vals_ and len(v_.c) <= 1:
                vals_.append(v_)
        if len(vals_) <= 12:
            for s, va, vb in newsyms:
                for i_ in range(len(vals_)):
                    for j_ in range(i_ + 1, len(vals_)):
                        t_ = vals_[i_] + vals_[j_]
                        cands.add(_normalise(t_ - Lin.var(s)))
        # a fact about the old value of a joined location, restated for the joined symbol (`start + n <= buf + cap` on one side,
        # `start == buf` on the other: the restated fact holds on both)
        for side_cons, idx in ((ca, 1), (cb, 2)):
            m = {}
            for t in newsyms:
                old = t[idx]
                if len(old.c) == 1 and old.k == 0 and list(old.c.values())[0] == 1:
                    m[list(old.c)[0]] = Lin.var(t[0])
            if m:
                for c in side_cons:
                    if any(v in c.c for v in m):
                        cands.add(_normalise(c.subst(m)))
        keep = set()
        for c in cands:
            if not c.c:
                continue
            if (c in ca or entails(A, c)) and (c in cb or entails(B, c)):
                keep.add(c)
        facts = {k: v for k, v in a.facts.items() if b.facts.get(k) == v}
        for s, va, vb in newsyms:
            pass
        return State(env, keep, facts)

    def run(self, init, disjuncts=4):
        """forward analysis.  States that disagree on a boolean fact (e.g. nullness of the owned pointer) are kept apart (at most
        `disjuncts` of them per program point) instead of being joined: `if(!p && !c) return; if(c) {..}` then knows p != 0 on the
        path where c is false.  returns (in-states, at-states) whose values are tuples of State"""
        f = self.f

        def sig(st):
            return tuple(sorted((k, v) for k, v in st.facts.items()))

        def norm(sts):
            groups = {}
            for st in sts:
                if st is None:
                    continue
                k = sig(st)
                groups[k] = st if k not in groups else self.join(groups[k], st)
            out = list(groups.values())
            while len(out) > disjuncts:
                a = out.pop()
                out[-1] = self.join(out[-1], a)
            return tuple(out)

        def transfer(sts, e):
            return norm([self.transfer(st, e) for st in sts])

        def refine(sts, blk, k):
            c = blk.get("cond")
            if c is None or len(blk["succ"]) != 2 or blk.get("tk") == "SwitchStmt":
                return sts
            def conds(st, cn, truth, depth=0):
                """states on the edge: a disjunction known true (`!(grow || buffer)` false) splits into its cases"""
                if st is None:
                    return []
                x = f.strip(cn)
                n_ = f.nodes[x]
                if depth < 4 and n_["k"] == "UnaryOperator" and n_.get("op") == "!" and n_["c"]:
                    return conds(st, n_["c"][0], not truth, depth + 1)
                if depth < 4 and n_["k"] == "BinaryOperator" and n_.get("op") in ("||", "&&") and (n_["op"] == "||") == bool(truth):
                    a_, b_ = n_["c"]
                    first = conds(st, a_, truth, depth + 1)
                    rest = [s2 for s1 in conds(st, a_, not truth, depth + 1) for s2 in conds(s1, b_, truth, depth + 1)]
                    return first + rest
                return [self.cond(st, cn, truth)]
            out = norm([s_ for st in sts for s_ in conds(st, c, k == 0)])
            return out if out else None

        def join(a, b):
            return norm(list(a) + list(b))

        return q.forward(f, (init,), transfer, refine, join, max_iter=400)
