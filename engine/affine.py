"""Abstract evaluation over affine forms in the bytes of an input buffer.

A value is a form  c + sum(k_i * b_i)  where b_i is the i-th byte behind a pointer parameter (read as an unsigned byte).  The walker
follows the CFG of a function for a given valuation of its scalar inputs, keeps every local as such a form, keeps the pointer as an
offset, and returns the form of the returned value.  Operators that leave the domain (&, |, comparisons of non-constant forms) are
only evaluated where a branch has to be decided; there the symbols are replaced by a representative byte sequence handed in by the
caller - the decision is then the one taken for that class of inputs.  Nothing of the analysed program is executed."""
from . import q, fin

CASTS = ("CStyleCastExpr", "CXXStaticCastExpr", "CXXReinterpretCastExpr", "CXXFunctionalCastExpr", "CXXConstCastExpr")


class NotAffine(Exception):
    def __init__(self, node, why):
        Exception.__init__(self, why)
        self.node, self.why = node, why


def const(v):
    return {None: v}


def is_const(a):
    return all(k is None or c == 0 for k, c in a.items())


def add(a, b, s=1):
    o = dict(a)
    for k, c in b.items():
        o[k] = o.get(k, 0) + s * c
    return o


def scale(a, m):
    return {k: c * m for k, c in a.items()}


def norm(a, bits):
    m = 1 << bits
    o = {k: c % m for k, c in a.items()}
    return {k: c for k, c in o.items() if c or k is None}


class Walker:
    def __init__(self, f, ptr, consts, rep):
        self.f, self.ptr, self.consts, self.rep = f, ptr, dict(consts), list(rep)
        self.env, self.tables = {}, {}
        self.ptrs = {ptr: 0}     # the cursor and its aliases (`const uchar* pos = (const uchar*)ch;`) -> offset from the start of the input
        self.lazy = {}           # locals naming a test on the bytes (`const bool isAscii = (lead & 0x80) == 0`): evaluated where a branch needs them
        self.concrete = False
        self.reads = []        # (node, offset, signed)
        self.trail = []

    # ------------------------------------------------------------------ pointer expressions
    def pev(self, i):
        f = self.f
        i = f.strip(i)
        n = f.nodes[i]
        if n["k"] in CASTS and n["c"]:
            return self.pev(n["c"][0])
        if n["k"] == "DeclRefExpr" and n["ref"].get("n") in self.ptrs:
            return self.ptrs[n["ref"]["n"]]
        if n["k"] == "UnaryOperator" and n.get("op") in ("++", "--") and n["c"]:
            base = f.nodes[f.strip(n["c"][0])]
            if base["k"] == "DeclRefExpr" and base["ref"].get("n") in self.ptrs:
                d = 1 if n["op"] == "++" else -1
                old = self.ptrs[base["ref"]["n"]]
                self.ptrs[base["ref"]["n"]] = old + d
                return old if n.get("post") else old + d
        if n["k"] == "BinaryOperator" and n.get("op") in ("+", "-") and len(n["c"]) == 2:
            for a, b in ((0, 1), (1, 0)):
                try:
                    base = self.pev(n["c"][a])
                except NotAffine:
                    continue
                d = self.aev(n["c"][b])
                if is_const(d) and (n["op"] == "+" or a == 0):
                    return base + (d[None] if n["op"] == "+" else -d[None])
        raise NotAffine(i, "pointer expression `%s` is not the cursor plus a constant" % q.no_casts(f.r(i))[:40])

    def byte(self, node, k, signed):
        self.reads.append((node, k, signed))
        if signed:
            raise NotAffine(node, "byte %d is read through a (signed) char: values >= 0x80 are sign-extended" % k)
        if self.concrete:
            if not 0 <= k < len(self.rep):
                raise NotAffine(node, "byte %d lies outside the representative sequence" % k)
            return const(self.rep[k])
        return {None: 0, k: 1}

    # ------------------------------------------------------------------ value expressions
    def aev(self, i):
        f = self.f
        i = f.strip(i)
        n = f.nodes[i]
        k = n["k"]
        c = n["c"]
        if k == "DeclRefExpr" and n["ref"].get("dk") in ("local", "parm"):
            nm = n["ref"].get("n")
            if nm in self.env:
                a = self.env[nm]
                if self.concrete:
                    a = const(a.get(None, 0) + sum(cf * self._rep(i, s) for s, cf in a.items() if s is not None))
                return a
            if nm in self.consts:
                return const(self.consts[nm])
            if nm in self.lazy and self.concrete:
                return self.aev(self.lazy[nm])
            raise NotAffine(i, "`%s` has no known value here" % nm)
        if k in ("IntegerLiteral", "CharacterLiteral", "CXXBoolLiteralExpr"):
            return const(n["v"])
        if "cv" in n:
            return const(n["cv"])
        if k in CASTS and c:
            a = self.aev(c[0])
            ty = n.get("t", "")
            bits = {"unsigned char": 8, "char": 8, "unsigned short": 16}.get(ty)
            if bits and not is_const(a):
                # narrowing a form that is not a single byte leaves the domain
                if not (bits == 8 and sorted(x for x in a if x is not None and a[x]) and a.get(None, 0) == 0 and
                        [a[x] for x in a if x is not None and a[x]] == [1] and ty == "unsigned char"):
                    raise NotAffine(i, "narrowing cast of a non-constant value")
            if bits and is_const(a):
                v = a[None] % (1 << bits)
                if ty == "char" and v >= 128:
                    v -= 256
                return const(v)
            return a
        if k == "UnaryOperator" and n.get("op") == "*" and c:
            ty = n.get("t", "")
            signed = "unsigned" not in ty
            return self.byte(i, self.pev(c[0]), signed)
        if k == "ArraySubscriptExpr" and len(c) == 2:
            base = f.nodes[f.strip(c[0])]
            if base["k"] == "DeclRefExpr" and base["ref"].get("n") in self.tables:
                ix = self.aev(c[1])
                tb = self.tables[base["ref"]["n"]]
                if not is_const(ix):
                    raise NotAffine(i, "table index is not constant on this path")
                if not 0 <= ix[None] < len(tb):
                    raise NotAffine(i, "table index %d outside the table" % ix[None])
                return const(tb[ix[None]])
            ix = self.aev(c[1])
            if is_const(ix):
                ty = n.get("t", "")
                return self.byte(i, self.pev(c[0]) + ix[None], "unsigned" not in ty)
            raise NotAffine(i, "subscript is not constant")
        if k == "UnaryOperator" and n.get("op") in ("-", "+", "~", "!") and c:
            a = self.aev(c[0])
            if n["op"] == "+":
                return a
            if n["op"] == "-":
                return scale(a, -1)
            if is_const(a):
                return const(~a[None] if n["op"] == "~" else int(not a[None]))
            raise NotAffine(i, "`%s` of a non-constant value" % n["op"])
        if k == "BinaryOperator" and len(c) == 2 and n.get("op") not in ("=", ","):
            op = n["op"]
            a = self.aev(c[0])
            b = self.aev(c[1])
            if op == "+":
                return add(a, b)
            if op == "-":
                return add(a, b, -1)
            if op == "<<" and is_const(b):
                return scale(a, 1 << b[None])
            if op == "*" and (is_const(a) or is_const(b)):
                return scale(b, a[None]) if is_const(a) else scale(a, b[None])
            if is_const(a) and is_const(b):
                x, y = a[None], b[None]
                try:
                    return const({"&": lambda: x & y, "|": lambda: x | y, "^": lambda: x ^ y, ">>": lambda: x >> y, "<<": lambda: x << y,
                                  "*": lambda: x * y, "/": lambda: int(x / y) if y else 0, "%": lambda: x % y if y else 0,
                                  "==": lambda: int(x == y), "!=": lambda: int(x != y), "<": lambda: int(x < y), "<=": lambda: int(x <= y),
                                  ">": lambda: int(x > y), ">=": lambda: int(x >= y), "&&": lambda: int(bool(x) and bool(y)),
                                  "||": lambda: int(bool(x) or bool(y))}[op]())
                except KeyError:
                    pass
            raise NotAffine(i, "`%s` applied to a value that depends on the input bytes leaves the affine domain" % op)
        if k == "ConditionalOperator" and len(c) == 3:
            t = self.decide(c[0])
            return self.aev(c[1] if t else c[2])
        v = fin.eval_expr(f, i, self.consts)
        if v is not None:
            return const(v)
        raise NotAffine(i, "`%s` cannot be expressed over the input bytes" % q.no_casts(f.r(i))[:50])

    def _rep(self, node, s):
        if not 0 <= s < len(self.rep):
            raise NotAffine(node, "byte %d lies outside the representative sequence" % s)
        return self.rep[s]

    def decide(self, cond):
        """truth of a branch condition: by the scalar valuation where that is enough, else for the representative byte sequence"""
        v = fin.eval_expr(self.f, cond, self.consts)
        if v is not None:
            return bool(v)
        old = self.concrete
        self.concrete = True
        try:
            a = self.aev(cond)
        finally:
            self.concrete = old
        return bool(a[None])

    # ------------------------------------------------------------------ statements
    def _top(self, e):
        p = self.f.up(e)
        return p is None or self.f.nodes[p]["k"].endswith("Stmt")

    def stmt(self, e):
        f = self.f
        n = f.nodes[e]
        k = n["k"]
        if k == "DeclStmt":
            for d in n["decls"]:
                ini = d.get("init")
                if ini is None:
                    continue
                x = f.nodes[f.strip(ini)]
                if x["k"] == "InitListExpr":
                    vals = [fin.eval_expr(f, y, self.consts) for y in x["c"]]
                    if None not in vals:
                        self.tables[d["n"]] = vals
                    continue
                if d["n"] in self.consts:
                    continue        # an input of the evaluation (e.g. the sequence length the caller fixed)
                if "*" in (x.get("t") or "") or x["k"] in CASTS and "*" in (x.get("t") or ""):
                    save = dict(self.ptrs)
                    try:
                        self.ptrs[d["n"]] = self.pev(ini)
                        continue
                    except NotAffine:
                        self.ptrs = save
                try:
                    a = self.aev(ini)
                except NotAffine:
                    self.lazy[d["n"]] = ini
                    continue
                self.env[d["n"]] = a
                if is_const(a):
                    self.consts[d["n"]] = a[None]
            return None
        if k in ("BinaryOperator", "CompoundAssignOperator") and n.get("op", "").endswith("=") and n.get("op") not in ("==", "!=", "<=", ">=") and len(n["c"]) == 2:
            l = f.nodes[f.strip(n["c"][0])]
            if l["k"] != "DeclRefExpr" or l["ref"].get("dk") not in ("local", "parm"):
                raise NotAffine(e, "store to `%s`" % q.no_casts(f.r(n["c"][0]))[:30])
            nm = l["ref"]["n"]
            op = n["op"]
            if nm in self.ptrs:
                if op == "=":
                    self.ptrs[nm] = self.pev(n["c"][1])
                    return None
                d = self.aev(n["c"][1]) if op in ("+=", "-=") else None
                if d is None or not is_const(d):
                    raise NotAffine(e, "the cursor is moved by a non-constant amount")
                self.ptrs[nm] += d[None] if op == "+=" else -d[None]
                return None
            rhs = self.aev(n["c"][1])
            if op == "=":
                new = rhs
            else:
                cur = self.env.get(nm)
                if cur is None:
                    if nm in self.consts:
                        cur = const(self.consts[nm])
                    else:
                        raise NotAffine(e, "`%s` has no known value here" % nm)
                if op == "+=":
                    new = add(cur, rhs)
                elif op == "-=":
                    new = add(cur, rhs, -1)
                elif op == "<<=" and is_const(rhs):
                    new = scale(cur, 1 << rhs[None])
                elif op == "*=" and is_const(rhs):
                    new = scale(cur, rhs[None])
                elif is_const(cur) and is_const(rhs) and op in ("|=", "&=", "^=", ">>="):
                    x, y = cur[None], rhs[None]
                    new = const({"|=": x | y, "&=": x & y, "^=": x ^ y, ">>=": x >> y}[op])
                else:
                    raise NotAffine(e, "`%s` applied to a value that depends on the input bytes leaves the affine domain" % op)
            self.env[nm] = new
            self.consts.pop(nm, None)
            if is_const(new):
                self.consts[nm] = new[None]
            return None
        if k == "UnaryOperator" and n.get("op") in ("++", "--") and n["c"]:
            l = f.nodes[f.strip(n["c"][0])]
            if l["k"] == "DeclRefExpr" and l["ref"].get("n") in self.ptrs:
                self.ptrs[l["ref"]["n"]] += 1 if n["op"] == "++" else -1
            elif l["k"] == "DeclRefExpr" and l["ref"].get("n") in self.env:
                nm = l["ref"]["n"]
                self.env[nm] = add(self.env[nm], const(1 if n["op"] == "++" else -1))
                self.consts.pop(nm, None)
                if is_const(self.env[nm]):
                    self.consts[nm] = self.env[nm][None]
            return None
        return None

    def run(self, limit=200):
        """-> (affine form of the returned value, ReturnStmt node)"""
        f = self.f
        b = f.entry
        for _ in range(limit):
            blk = f.blocks[b]
            self.trail.append(b)
            for e in blk["el"]:
                if not isinstance(e, int):
                    continue
                ne = f.nodes[e]
                if ne["k"] == "ReturnStmt":
                    return (self.aev(ne["c"][0]) if ne["c"] else None), e
                if self._top(e):
                    self.stmt(e)
            t = blk.get("term")
            if isinstance(t, int) and f.nodes[t]["k"] == "ReturnStmt":
                return (self.aev(f.nodes[t]["c"][0]) if f.nodes[t]["c"] else None), t
            succ = blk["succ"]
            c = blk.get("cond")
            if b == f.exit or not succ:
                return None, None
            if len(succ) == 1:
                b = succ[0]
            elif blk.get("tk") == "SwitchStmt" and c is not None:
                a = self.aev(c)
                if not is_const(a):
                    raise NotAffine(c, "switch on a value that depends on the input bytes")
                v = a[None]
                target = default = None
                for s in succ:
                    if s is None:
                        continue
                    lab = f.blocks[s].get("label")
                    l = lab
                    is_def = lab is None
                    while l is not None and l >= 0 and f.nodes[l]["k"] in ("CaseStmt", "DefaultStmt"):
                        if f.nodes[l]["k"] == "CaseStmt" and f.nodes[l].get("v") == v:
                            target = s
                        if f.nodes[l]["k"] == "DefaultStmt":
                            is_def = True
                        nxt = [x for x in f.nodes[l]["c"] if x >= 0 and f.nodes[x]["k"] in ("CaseStmt", "DefaultStmt")]
                        l = nxt[0] if nxt else None
                    if is_def:
                        default = s
                b = target if target is not None else default
            elif len(succ) == 2 and c is not None:
                b = succ[0] if self.decide(c) else succ[1]
            elif len(succ) == 2:
                b = succ[0] if succ[0] is not None else succ[1]
            else:
                raise NotAffine(c if c is not None else -1, "unsupported branch")
            if b is None:
                return None, None
        raise NotAffine(-1, "no return reached within %d blocks" % limit)
