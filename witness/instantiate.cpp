// Witness unit: explicit instantiations only, so that the template code the
// properties anchor has instantiated bodies (AST + CFG) for the static rules.
// It adds no semantics of its own; nothing here is ever executed or linked.
#include <nstd/Base.hpp>
#include <nstd/Memory.hpp>
#include <nstd/Atomic.hpp>
#include <nstd/String.hpp>
#include <nstd/Array.hpp>
#include <nstd/List.hpp>
#include <nstd/Map.hpp>
#include <nstd/MultiMap.hpp>
#include <nstd/HashMap.hpp>
#include <nstd/HashSet.hpp>
#include <nstd/PoolList.hpp>
#include <nstd/PoolMap.hpp>
#include <nstd/Buffer.hpp>
#include <nstd/Variant.hpp>
#include <nstd/RefCount.hpp>
#include <nstd/Unicode.hpp>
#include <nstd/Future.hpp>
#include <nstd/Callback.hpp>
#include <nstd/Thread.hpp>
#include <nstd/Mutex.hpp>
#include <nstd/Monitor.hpp>
#include <nstd/Semaphore.hpp>
#include <nstd/Signal.hpp>
#include <nstd/File.hpp>
#include <nstd/Directory.hpp>
#include <nstd/Process.hpp>
#include <nstd/Time.hpp>
#include <nstd/Crypto/Sha256.hpp>
#include <nstd/Document/Json.hpp>
#include <nstd/Document/Xml.hpp>
#include <nstd/Socket/Socket.hpp>
#include <nstd/Socket/Server.hpp>

namespace witness {

// element type that owns a resource (copyable, comparable)
struct Res
{
  String s;
  Res() {}
  Res(const String& s) : s(s) {}
  bool operator==(const Res& o) const {return s == o.s;}
  bool operator!=(const Res& o) const {return s != o.s;}
  bool operator<(const Res& o) const {return s < o.s;}
  bool operator>(const Res& o) const {return s > o.s;}
};

// non-copyable, non-assignable element for the pool containers (C05.e)
struct NC
{
  int a;
  NC() : a(0) {}
  NC(int a) : a(a) {}
  NC(int a, int b) : a(a + b) {}
  NC(int a, int b, int c) : a(a + b + c) {}
  NC(int a, int b, int c, int d) : a(a + b + c + d) {}
  NC(int a, int b, int c, int d, int e) : a(a + b + c + d + e) {}
  NC(int a, int b, int c, int d, int e, int f) : a(a + b + c + d + e + f) {}
  NC(int a, int b, int c, int d, int e, int f, int g) : a(a + b + c + d + e + f + g) {}
private:
  NC(const NC&);
  NC& operator=(const NC&);
};

struct Obj : public RefCount::Object { int x; };
struct Derived : public Obj { int y; };

} // namespace witness

// ---- value containers: an element type with a resource, and a scalar one
template class Array<witness::Res>;
template class Array<int>;
template class List<witness::Res>;
template class List<int>;
template class Map<int, witness::Res>;
template class Map<String, int>;
template class MultiMap<int, witness::Res>;
template class MultiMap<String, int>;
template class HashMap<uint32, witness::Res>;   // T != V, V a class type (C02.a)
template class HashMap<String, uint64>;
template class HashSet<String>;
template class HashSet<uint32>;

// ---- pool containers with a non-copyable element (C05.e): every member must instantiate
template class PoolList<witness::NC>;
template class PoolMap<uint32, witness::NC>;
template class PoolMap<String, witness::Res>;

// ---- reference-counted pointer
template class RefCount::Ptr<witness::Obj>;
template class RefCount::Ptr<witness::Derived>;

namespace witness {

// member templates need a use to be instantiated
inline void poolAppend(PoolList<NC>& l, PoolMap<uint32, NC>& m)
{
  l.append(); l.append(1); l.append(1, 2); l.append(1, 2, 3); l.append(1, 2, 3, 4);
  l.append(1, 2, 3, 4, 5); l.append(1, 2, 3, 4, 5, 6); l.append(1, 2, 3, 4, 5, 6, 7);
  m.append(1u);
}

inline void ptrConversions(Derived* d)
{
  RefCount::Ptr<Derived> pd(d);
  RefCount::Ptr<Obj> po(pd);
  po = pd;
  po = d;
  (void)(po == pd); (void)(po != pd); (void)(po == d); (void)(po != d);
  po.swap(po);
}

int f0();
int f1(int);
int f2(int, int);
void v0();
void v1(int);
struct Worker { int m0(); int m1(int); void w0(); void w1(int); };

inline void futures(Worker& w)
{
  Future<int> a; a.start(&f0); a.start(&f1, 1); a.start(&f2, 1, 2); a.start(w, &Worker::m0); a.start(w, &Worker::m1, 1);
  int r = a; (void)r;
  Future<void> b; b.start(&v0); b.start(&v1, 1); b.start(w, &Worker::w0); b.start(w, &Worker::w1, 1);
  b.join(); b.abort(); (void)b.isAborting(); (void)b.isFinished(); (void)b.isAborted();
  a.join(); a.abort(); (void)a.isAborting(); (void)a.isFinished(); (void)a.isAborted();
}

struct Em : public Callback::Emitter
{
  void s0(); void s1(int); void s2(int, int); void s3(int, int, int); void s4(int, int, int, int);
  void s5(int, int, int, int, int); void s6(int, int, int, int, int, int);
  void s7(int, int, int, int, int, int, int); void s8(int, int, int, int, int, int, int, int);
  void fire()
  {
    emit(&Em::s0); emit(&Em::s1, 1); emit(&Em::s2, 1, 2); emit(&Em::s3, 1, 2, 3); emit(&Em::s4, 1, 2, 3, 4);
    emit(&Em::s5, 1, 2, 3, 4, 5); emit(&Em::s6, 1, 2, 3, 4, 5, 6); emit(&Em::s7, 1, 2, 3, 4, 5, 6, 7);
    emit(&Em::s8, 1, 2, 3, 4, 5, 6, 7, 8);
  }
};
struct Li : public Callback::Listener
{
  void t0(); void t1(int); void t2(int, int);
};
struct Pad { int pad; };
struct Li2 : public Pad, public Li {};      // the slot's class is a non-first base of the object handed to connect/disconnect
inline void callbacks2(Em& e, Li2& l)
{
  Callback::connect(&e, &Em::s0, &l, &Li::t0); Callback::connect(&e, &Em::s1, &l, &Li::t1);
  Callback::disconnect(&e, &Em::s0, &l, &Li::t0); Callback::disconnect(&e, &Em::s1, &l, &Li::t1);
}
inline void callbacks(Em& e, Li& l)
{
  Callback::connect(&e, &Em::s0, &l, &Li::t0); Callback::connect(&e, &Em::s1, &l, &Li::t1); Callback::connect(&e, &Em::s2, &l, &Li::t2);
  Callback::disconnect(&e, &Em::s0, &l, &Li::t0); Callback::disconnect(&e, &Em::s1, &l, &Li::t1); Callback::disconnect(&e, &Em::s2, &l, &Li::t2);
  e.fire();
}

struct Th { uint run(); };
inline void threads(Thread& t, Th& x) { t.start(x, &Th::run); }

} // namespace witness
